#!/venv/bin/python
"""Which lines of /repo/cgsmiles are executed by the generators+oracles? (not a check; a tool to find
blind spots).  usage: coverage_probe.py [ids...] ; runs N generated cases per property in-process under sys.settrace"""
import os, sys, collections, random
sys.path.insert(0, os.path.dirname(os.path.dirname(os.path.abspath(__file__))))
from vlib import env, runner
from vlib.draw import PyRandom
N = int(os.environ.get('N', '150'))
ids = sys.argv[1:] or ['C%02d' % i for i in range(1, 21)]
hits = collections.defaultdict(set)
root = os.path.realpath(os.path.join(env.TREE, 'cgsmiles'))
def tracer(frame, event, arg):
    fn = frame.f_code.co_filename
    if not fn.startswith(root) or '/tests/' in fn:
        return None
    def local(frame, event, arg):
        if event == 'line':
            hits[fn].add(frame.f_lineno)
        return local
    hits[fn].add(frame.f_lineno)
    return local
for pid in ids:
    prop = runner.load_prop(pid)
    R = PyRandom(random.Random(1))
    col = runner.Collector(prop, [f['feature'] for f in runner.load_findings(pid) if f['status'] == 'open' and f.get('feature')])
    for i in range(N):
        case = prop.gen(R, 'quick')
        sys.settrace(tracer)
        try:
            col.eval_case(case)
        finally:
            sys.settrace(None)
    sys.stderr.write('%s evaluated=%d failures=%r\n' % (pid, col.evaluations, dict(col.fail_count)))
import ast
for fn in sorted(os.listdir(root)):
    if not fn.endswith('.py') or fn in ('__init__.py', 'test_utils.py', 'drawing.py', 'drawing_utils.py'):
        continue
    path = os.path.join(root, fn)
    src = open(path).read().splitlines()
    tree = ast.parse(open(path).read())
    stmts = set()
    for node in ast.walk(tree):
        if isinstance(node, ast.stmt) and not isinstance(node, (ast.FunctionDef, ast.ClassDef, ast.Import, ast.ImportFrom)):
            if not (isinstance(node, ast.Expr) and isinstance(getattr(node, 'value', None), ast.Constant)):
                stmts.add(node.lineno)
    miss = sorted(stmts - hits.get(path, set()))
    print('%-24s statements=%d missed=%d' % (fn, len(stmts), len(miss)))
    for ln in miss:
        print('     %4d  %s' % (ln, src[ln - 1].strip()[:110]))
