#!/venv/bin/python
"""writes seeded/README.md: one row per seeded breaking change from its meta.json"""
import json, os, re
HERE = os.path.dirname(os.path.dirname(os.path.abspath(__file__)))
rows = []
final = {}
rp = os.path.join(HERE, 'seeded', 'RESULTS.txt')
if os.path.exists(rp):
    cur = None
    for line in open(rp):
        mm = re.match(r'seeded=seeded/(C\d\d-\w) ', line)
        if mm:
            cur = mm.group(1)
            final[cur] = []
        mm = re.match(r'\s+check (C\d+) exit=(\d)\s*(?:failure kind=(\S+))?', line)
        if mm and cur:
            final[cur].append('%s exit=%s%s' % (mm.group(1), mm.group(2), (' `%s`' % mm.group(3)) if mm.group(3) else ''))
for d in sorted(os.listdir(os.path.join(HERE, 'seeded'))):
    p = os.path.join(HERE, 'seeded', d, 'meta.json')
    if not os.path.exists(p):
        continue
    m = json.load(open(p))
    caught = []
    for r in m.get('ran', []):
        mm = re.match(r'check (C\d+) exit=(\d)(?: :: (\S+))?', r)
        if mm:
            caught.append('%s exit=%s%s' % (mm.group(1), mm.group(2), (' `%s`' % mm.group(3)) if mm.group(3) else ''))
    rows.append('| %s | %s | %s | %s | %s | %s |' % (
        d, (m.get('summary') or '').replace('|', '/').replace('\n', ' ')[:220],
        (m.get('needs_to_manifest') or '').replace('|', '/').replace('\n', ' ')[:200],
        '<br>'.join(caught), m.get('first_run', ''), '<br>'.join(final.get(d, []))))
with open(os.path.join(HERE, 'seeded', 'README.md'), 'w') as fh:
    fh.write('# Seeded breaking changes\n\nEach directory holds `patch.diff` (applies to /repo HEAD with `git apply`), `demo.py` '
             '(exits 1 with the change, 0 without) and `meta.json`. All were written by fresh sub-agents that saw only the '
             'property text; all keep the 150 existing tests green. Run one with `tools/seeded.sh seeded/<name> [checks]`.\n\n'
             'The last column is the result of the final framework (`tools/seeded_matrix.sh`, raw output in `RESULTS.txt`): exit=1 means the check of that property reported the change.\n\n| name | change | needs to manifest | checks run when the change was received (quick tier) | first run | final framework |\n|---|---|---|---|---|---|\n')
    fh.write('\n'.join(rows) + '\n')
print(len(rows), 'rows')
