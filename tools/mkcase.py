#!/venv/bin/python
"""print the replay case JSON for a property and an input text (properties with case_from_text)"""
import json, sys, os
sys.path.insert(0, os.path.dirname(os.path.dirname(os.path.abspath(__file__))))
from vlib import runner
prop = runner.load_prop(sys.argv[1])
for text in sys.argv[2:]:
    case = prop.case_from_text(text)
    res = runner.evaluate(prop, case)
    sys.stderr.write('%s -> %r\n' % (text, res))
    print(json.dumps(case, sort_keys=True))
