#!/bin/bash
# runs every seeded change against the check of the property it breaks (6 at a time) and writes seeded/RESULTS.txt
cd "$(dirname "$0")/.."
out=seeded/RESULTS.txt; : > $out.tmp
ls -d seeded/C*/ | xargs -P 6 -I{} sh -c 'tools/seeded.sh {} > /tmp/seedmatrix_$(basename {}).log 2>&1'
for d in seeded/C*/; do n=$(basename $d); cat /tmp/seedmatrix_$n.log | cut -c1-330 >> $out.tmp; rm -f /tmp/seedmatrix_$n.log; done
mv $out.tmp $out
grep -c "check C.. exit=1" $out
