#!/venv/bin/python
"""keep_seeded.py <src dir with patch.diff demo.py meta.json> <name> <log file of tools/seeded.sh>...
copies a confirmed seeded breaking change to /verif/seeded/<name>/ and records what was run"""
import json, os, shutil, sys
src, name = sys.argv[1], sys.argv[2]
logs = sys.argv[3:]
dst = os.path.join(os.path.dirname(os.path.dirname(os.path.abspath(__file__))), 'seeded', name)
os.makedirs(dst, exist_ok=True)
for f in ('patch.diff', 'demo.py'):
    shutil.copy(os.path.join(src, f), os.path.join(dst, f))
meta = json.load(open(os.path.join(src, 'meta.json')))
ran = []
for l in logs:
    for line in open(l):
        line = line.rstrip()
        if line.startswith('seeded='):
            ran.append('tools/seeded.sh: ' + line.split(' ', 1)[1])
        elif line.strip().startswith('check '):
            ran.append(' '.join(line.split()[:3]) + ((' :: ' + line.split('failure kind=', 1)[1][:160]) if 'failure kind=' in line else ''))
meta = dict(breaks_property=meta.get('property'), summary=meta.get('summary'), needs_to_manifest=meta.get('needs'),
            files=meta.get('files'), origin='written by a fresh sub-agent that saw only the property text and a scratch worktree',
            confirmed='patch applies to /repo HEAD; 150 tests pass with it; demo.py exits 1 with the change and 0 without',
            ran=ran)
json.dump(meta, open(os.path.join(dst, 'meta.json'), 'w'), indent=1)
print(name, ran)
