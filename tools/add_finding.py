#!/venv/bin/python
"""add_finding.py <property> <key> <open|fixed> <commit|-> <feature|-> <kind[,kind]> <what> <replay.json|text>...
appends an entry to known_findings.json; replay cases are taken from replay files written by a
check (or built from text through the property's case_from_text)."""
import json, sys, os
HERE = os.path.dirname(os.path.dirname(os.path.abspath(__file__)))
sys.path.insert(0, HERE)
from vlib import runner
pid, key, status, commit, feature, kinds, what = sys.argv[1:8]
prop = runner.load_prop(pid)
cases = []
for a in sys.argv[8:]:
    if os.path.exists(a):
        blob = json.load(open(a))
        cases.append(blob.get('case', blob))
    else:
        cases.append(prop.case_from_text(a))
for c in cases:
    print(c['input'], '->', runner.evaluate(prop, c))
path = os.path.join(HERE, 'known_findings.json')
kf = json.load(open(path))
kf['findings'] = [f for f in kf['findings'] if f['key'] != key]
e = dict(property=pid, key=key, status=status, failure_kind=kinds.split(','), what=what, replays=cases)
if commit != '-':
    e['commit'] = commit
if feature != '-':
    e['feature'] = feature
kf['findings'].append(e)
if status == 'fixed':
    line = 'fixed: property=%s %s %s - %s' % (pid, commit, cases[0]['input'] if cases else '', what)
    if line not in kf['log']:
        kf['log'].append(line)
json.dump(kf, open(path, 'w'), indent=1)
