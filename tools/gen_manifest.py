#!/venv/bin/python
"""Regenerates /verif/MANIFEST.json from the table below (run after adding a check)."""
import json
import os

HERE = os.path.dirname(os.path.dirname(os.path.abspath(__file__)))

SETUP = ("/venv/bin/python -c 'import hypothesis' 2>/dev/null || /venv/bin/pip install -q --no-index "
         "--find-links /opt/veriftools/wheels hypothesis; "
         "/venv/bin/pip install -q --no-index --find-links /opt/veriftools/wheels --target /verif/.deps atheris "
         ">/dev/null 2>&1 || true; /venv/bin/python -c 'import hypothesis, networkx, pysmiles; print(\"setup ok\")'")

NOTE_COMMON = ('Trusted base: Python 3.12, hypothesis 6.168, networkx (isomorphism), the generators/reference '
               'models in /verif/vlib (independent of cgsmiles). Explores, does not prove: violations confined '
               'to inputs outside the stated generator bounds stay unseen. ')

# id -> (technique, level text, design ref, extra note)
CHECKS = {
    'C04': ('property-based testing: grammar-AST generator + exhaustive small-scope enumeration vs reference interpreter',
            'Every string rendered from a generated or enumerated grammar AST is read by read_cgsmiles and compared '
            'node by node / edge by edge with an independent reference interpreter of the AST. Exhaustive up to a '
            'node bound, random (Hypothesis, 4-16 shards) beyond it.',
            '4/C04', ''),
    'C05': ('property-based testing: metamorphic relation shorthand |n vs longhand written out on the AST, longhand pinned by reference interpreter',
            'Generated and enumerated grammar strings with node and unit multipliers are read and compared (isomorphism '
            'on names, annotation attributes, bond orders; identical numbering for node multipliers) with the reading of '
            'the longhand string produced on the AST; the longhand reading must equal the reference interpreter. Open '
            'findings F19-F26 of the branch expansion are excluded by feature and reported as KNOWN-FINDING. Includes multiplied nodes that anchor branches or units, exhaustive small units, and an atheris campaign in the thorough tier.',
            '4/C05', 'Unit shapes with a listed open finding are excluded from generation (counted in evidence). '),
    'C20': ('fault injection over generated valid strings: one fault at every admissible position, expected exception type as oracle',
            'Each generated valid string gets one injected fault type at every position where it can be placed; every '
            'faulty string must raise the documented exception type (never return a graph); the fault-free string must '
            'be accepted; the reference interpreter independently confirms invalidity of the faulty base graph; faults are also injected into coarse fragment definitions and faulty base graphs are also handed to from_graph with shuffled insertion order.',
            '4/C20', ''),
    'C01': ('property-based testing: model-by-construction (molecule x partition x rendering) vs resolved graph, plus metamorphic twin (uncut molecule, from_graph constructor)',
            'A molecule model is generated first, cut at random, every cut written as a uniquely labelled descriptor pair, '
            'rendered by own SMILES/base-graph writers; the resolved fine graph must be isomorphic to the model (element, '
            'charge, H count from an independent valence table, bond orders incl. 1.5) and to the resolution of the uncut '
            'molecule; the base graph is also passed as nx.Graph with shuffled insertion order.',
            '4/C01', 'pysmiles is part of the code path under test (cgsmiles delegates SMILES parsing to it). '),
    'C13': ('property-based testing: recorded insertion of descriptors/annotations/slash marks into clean text, exact-equality oracle; exhaustive insertion positions for small texts',
            'Clean fragment texts (SMILES and coarse) are rendered token by token; descriptors, annotations and slash '
            'marks are inserted and recorded by the generator; strip_bonding_descriptors must return exactly the clean '
            'text and exactly the recorded maps. Exhaustive sub-run: every insertion slot x descriptor form for ten small texts.',
            '4/C13', ''),
    'C02': ('property-based testing: invariant over every resolution step (fragid / graph / mapping / template bijection) on generated strings',
            'After every resolve() step of generated strings (dedicated-pair molecules, multi-level strings, ambiguous '
            'fragment sets) the mapping invariants are evaluated: fragid within coarse keys, graph attribute equals '
            'the fragid members, cover, bijection of mapped nodes with the template (names/elements, bonds, orders, '
            'annotations), fragname on every member; generator-side annotations are compared independently of the template reader; every case is resolved again through from_graph with other node keys and shuffled insertion order, and through one of the three constructors drawn per case.',
            '4/C02', 'Templates are taken from cgsmiles\' own fragment reader. '),
    'C03': ('property-based testing: invariant over output + templates with an independent re-statement of the matching rule and exact descriptor-assignment search',
            'For generated ambiguous and dedicated fragment sets under both conventions every inter-fragment bond must '
            'carry a compatible descriptor pair, lie across a base edge, respect the edge order bound (exactly the '
            'order for dedicated pairs), carry the annotated order, and all bonds together must be explainable by the '
            'descriptors written on the templates without using one twice.',
            '4/C03', ''),
    'C06': ('property-based testing: metamorphic relation n-level vs 2-level vs model, step invariants, three drivers differential',
            'Multi-level strings built by repeatedly grouping a cut molecule; final result isomorphic to the model and '
            'to the two-level string; coarse graph of each step is the previous fine graph; C02/C03 invariants at '
            'every step; resolve() x k, resolve_iter() and resolve_all() give equal dumps. Levels include shared (!) nodes, virtual nodes and order-0 edges inside fragments, descriptors after closed branches, fragment names reused across levels, shared atoms at the atomistic level, coarse last level.',
            '4/C06', ''),
    'C09': ('property-based testing: per-atom valence invariant with an independent valence table on generated all-atom outputs',
            'Every all-atom result of generated strings (dedicated, multi-level, ambiguous with surplus descriptors, '
            'explicit hydrogens) is checked atom by atom: hydrogens == smallest fitting usual valence - heavy bond sum; '
            'hydrogens have one neighbour and inherit fragid/fragname/weight (also weight 0); explicit hydrogens (also as first atom, also as fragments capping aromatic atoms) kept; all-atom sampler outputs included; a public helper (compute_mass on a plain molecule) may run before the case.',
            '4/C09', 'Sampler outputs are checked by C16 with the same invariant. '),
    'C12': ('property-based testing: numbering invariants, metamorphic permutations / constructors differential, Hypothesis stateful machine over shared libraries, sub-process PYTHONHASHSEED differential',
            'Numbering clauses on every step; equal canonical dumps for repeated calls, permuted fragment definitions '
            'and the three constructors; libraries unchanged; RuleBasedStateMachine over shared fragment libraries '
            '(resolve via any constructor, long-lived resolvers, sampler on shared graphs) with memoised references; '
            'fresh interpreters under 4-8 hash seeds compared byte for byte.',
            '4/C12', 'Hash seeds and histories are sampled. '),
    'C07': ('exhaustive small-scope enumeration (networkx atlas x bond-order assignments x relabelings) + property-based round trip write->read',
            'Every connected atlas graph up to 5/6 nodes with enumerated bond-order assignments, two relabelings and '
            'two name patterns, plus random larger graphs, is written and read back; the result must be isomorphic on '
            'names and orders.',
            '4/C07', ''),
    'C14': ('property-based testing with exhaustive arrangement enumeration per record: semantic annotation record -> every positional/keyword rendering -> parsed attributes',
            'A generated annotation record is rendered in every positional/keyword arrangement at base-graph, '
            'coarse-fragment and atomistic level; parsed attributes must equal the record with documented defaults and '
            'types, stay on the coarse node, and appear on every fine copy of the annotated atom.',
            '4/C14', ''),
    'C10': ('property-based testing: model-by-construction with shared atoms vs resolved graph, metamorphic twin (disjoint description), atom-count and membership invariants',
            'The C01 construction with a random subset of cut bonds replaced by shared atoms (copies with [!x] in both '
            'fragments); result isomorphic to the model and to the disjoint description, heavy atoms = fragment atoms - '
            'shared pairs, merged atoms belong to both coarse nodes; ordinary descriptors may sit on any copy of a shared atom, fragments may overlap in a bond, sharing on several levels of one resolver, label-insensitive convention where unambiguous.',
            '4/C10', ''),
    'C11': ('property-based testing: metamorphic relation with/without virtual nodes and order-0 edges, membership invariant, fault twin (bonded virtual node must raise)',
            'A resolvable string is decorated with fragment-less nodes attached by order-0 edges (any position, several, '
            'ring bonds) and order-0 edges between real nodes; molecule and per-node membership must be unchanged, for '
            'from_string and for from_graph with shuffled node order and for a base-graph object resolved before with another fragment set; virtual nodes also inside fragments of intermediate levels; the twin with a bonded virtual node must raise SyntaxError.',
            '4/C11', ''),
    'C08': ('property-based testing: round trip read -> write -> read (fragments) and resolve -> write -> resolve (complete strings) with isomorphism oracle',
            'Generated atomistic and coarse fragment sets with arbitrary descriptor lists are read, written by '
            'write_cgsmiles_fragments and read again (isomorphism on element/name, charge, aromaticity, bond order, '
            'descriptor multiset per atom); generated complete strings are re-written with write_cgsmiles from the '
            'resolver inputs and must resolve to the same molecule (and the model).',
            '4/C08', ''),
    'C15': ('property-based testing: ground-truth stereo model rendered in several fragmentations/orders, metamorphic agreement of all variants with the truth',
            'Molecules are built around stereo double bonds with drawn cis/trans truth and chirality labels; slash '
            'marks are derived by the OpenSMILES rule from the writing direction of the own renderer; four variants '
            '(uncut, three partitions incl. cuts at the double bond, random base-graph order) must all annotate the '
            'truth on the right atoms; stored references must be real paths. Includes skipped and conjugated dienes, explicit hydrogens as marked substituents and redundant second marks, restricted to renderings in which the one-mark-per-atom reader keeps the relevant mark.',
            '4/C15', ''),
    'C18': ('property-based testing: round trip through RDKit vs model, geometric predicate after embedding, weighted-average and translation-equivariance (metamorphic) oracles',
            'RDKit-sane generated molecules (resolved, permuted node order, shared atoms, weights): conversion round '
            'trip with and without conformer vs the model, an independent RDKit construction decides acceptability; '
            'embedded coordinates must put bonded atoms at bonding distance; forward mapping must equal the weighted '
            'average of exactly the member atoms (weights incl. 0) and commute with translations; mixtures of two unbonded molecules and the combined entry point embedd_cg_molecule_via_rdkit included.',
            '4/C18', 'RDKit embedding is stochastic; failures to embed are inconclusive. '),
    'C19': ('property-based testing: postcondition oracle on generated graphs and their relabelled copies (metamorphic relabelling)',
            'Generated connected graphs and resolved molecules are laid out with drawn bond lengths and numpy seeds, '
            'as is and relabelled; positions must cover exactly the nodes, be finite 2-vectors, keep bonded nodes '
            'apart and have mean bond length equal to the requested one; edge orders incl. 0, long chains up to 130 nodes, align_with option.',
            '4/C19', ''),
    'C16': ('property-based testing: generated sampler configurations, invariant over the output and the reconstructed growth history (model of open descriptors)',
            'Sampler configurations are generated (fragments, descriptors, reactivity / conditional tables, terminal sets, '
            'seeds, targets); every returned molecule is checked for connectivity, canonical numbering, tree-of-copies '
            'structure, complementary descriptor pairs of equal order, descriptor usage replayed on a model of open '
            'descriptors, copy-template isomorphism, and valence completeness for all-atom samples; exceptions are '
            'accepted only where a dead end was reachable.',
            '4/C16', 'The sampler\'s add_fragment is wrapped by the harness only to record the state before each growth step (dead-end classification). '),
    'C17': ('property-based testing: history oracle for weights/reactivities/terminals, reproducibility differential, Hypothesis stateful machine, sub-process hash-seed differential',
            'On the same generated configurations: stopping rule on the summed masses, element-derived masses vs an '
            'independent table, explicit-zero reactivities and conditional reactivities never chosen, terminal rules via '
            'final descriptor lists, construct+sample twice equal; a RuleBasedStateMachine interleaves other '
            'constructions, resolver calls, foreign random draws and re-seeding between construct/sample pairs; the '
            'same batch is sampled in fresh interpreters under different hash seeds.',
            '4/C17', ''),
}

NOT_BUILT = {}


def main():
    props = [json.loads(l) for l in open(os.path.join(HERE, 'properties.jsonl'))]
    checks = []
    na = []
    for p in props:
        pid = p['id']
        if pid in CHECKS:
            tech, text, ref, note = CHECKS[pid]
            checks.append(dict(
                property_id=pid,
                quick_cmd='./check %s --tier quick' % pid,
                thorough_cmd='./check %s --tier thorough' % pid,
                evidence_file='evidence/%s.json' % pid,
                replay_cmd_template='./check %s --replay {path}' % pid,
                engine='vlib',
                level_claimed=dict(category='exploration', text=text, design_ref='DESIGN.md section ' + ref),
                level_note=NOTE_COMMON + note,
                technique=tech))
        else:
            na.append(dict(property_id=pid, reason=NOT_BUILT.get(
                pid, 'check not built yet in this session (planned in DESIGN.md section 4); not a statement '
                     'that the technique cannot apply')))
    manifest = dict(
        version=1,
        setup_cmd=SETUP,
        hooks=dict(guard='CGSMILES_VERIF', enable='no hooks needed; checks import cgsmiles from /repo working tree '
                   '(CGSMILES_TREE overrides the path for scratch copies)',
                   baseline_off_cmd='cd /repo && /venv/bin/python -m pytest -q -p no:cacheprovider',
                   source_commits=[], add_only=True),
        engines=[dict(name='vlib', path='vlib/', serves_properties=sorted(CHECKS),
                      kind_free_text='Hypothesis-driven structured generators (Draw adapter over st.data), exhaustive '
                      'small-scope enumerations, stateful machines, sub-process hash-seed differentials; collect -> '
                      'bucket -> shrink -> replay file; known_findings.json')],
        checks=checks,
        not_applicable=na,
        notes='See DESIGN.md. ./check <ID> --tier quick|thorough; exit 0 held, 1 VIOLATION, 2 harness error '
              '(inconclusive). Evidence is rewritten on every run.')
    with open(os.path.join(HERE, 'MANIFEST.json'), 'w') as fh:
        json.dump(manifest, fh, indent=1)
        fh.write('\n')
    try:
        import jsonschema
        jsonschema.validate(manifest, json.load(open('/root/.vp/MANIFEST.schema.json')))
    except ImportError:
        print('(jsonschema not available: not validated)')
    print('MANIFEST.json: %d checks, %d not applicable; valid' % (len(checks), len(na)))


if __name__ == '__main__':
    main()
