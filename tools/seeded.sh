#!/bin/bash
# usage: tools/seeded.sh <seeded-dir> [check ids...]
# Validates a seeded breaking change (patch applies, 150 tests pass, demo fails with / passes without)
# and runs the given checks (default: the property named in meta.json) against the patched scratch tree.
# Nothing is written to /repo or to /verif/evidence.
set -u
D=$(readlink -f "$1"); shift
V=$(dirname "$(dirname "$(readlink -f "$0")")")/
W=$(mktemp -d /tmp/seedrun.XXXXXX)
trap 'git -C /repo worktree remove --force "$W/t$$" >/dev/null 2>&1; rm -rf "$W"' EXIT
git -C /repo worktree add -q --detach "$W/t$$" HEAD || exit 2
cd "$W/t$$"
PBR_VERSION=0.0.0 /venv/bin/python "$D"/demo.py >/dev/null 2>&1; clean=$?
git apply "$D/patch.diff" || { echo "PATCH DOES NOT APPLY"; exit 2; }
tests=$(/venv/bin/python -m pytest -q -p no:cacheprovider 2>&1 | tail -1)
PBR_VERSION=0.0.0 /venv/bin/python "$D"/demo.py >/dev/null 2>&1; mut=$?
echo "seeded=$(basename $(dirname $D))/$(basename $D) tests='$tests' demo_clean_exit=$clean demo_mutant_exit=$mut"
ids="$@"
if [ -z "$ids" ]; then ids=$(/venv/bin/python -c "import json,sys;m=json.load(open('$D/meta.json'));print(m.get('property') or m.get('breaks_property'))"); fi
cd "$V"
for id in $ids; do
  out=$(CGSMILES_TREE="$W/t$$" VERIF_OUT="$W/out" ./check $id --tier ${TIER:-quick} 2>&1); rc=$?
  echo "  check $id exit=$rc $(echo "$out" | grep -m2 'failure kind' | cut -c1-260 | tr '\n' ' ')"
done
