"""G-MOL / G-CUT / G-RENDER: molecule model with an independent valence table, random partition
into connected fragments, own SMILES / CGsmiles writers with recorded descriptor placement.
All randomness through a Draw-like object R.  Independent of the code under test."""
import copy
import itertools
from collections import defaultdict

import networkx as nx

LOWEST_VALENCE = {'C': 4, 'N': 3, 'O': 2, 'S': 2, 'P': 3, 'F': 1, 'Cl': 1, 'Br': 1, 'H': 1}
USUAL_VALENCES = {'C': [4], 'N': [3, 5], 'O': [2], 'S': [2, 4, 6], 'P': [3, 5],
                  'F': [1], 'Cl': [1], 'Br': [1], 'H': [1]}
# iso-electronic shift for charged centres
CHARGED = {('N', 1): [4], ('O', -1): [1], ('N', -1): [2], ('O', 1): [3], ('S', -1): [1],
           ('C', -1): [3], ('S', 1): [3, 5], ('P', 1): [4], ('Cl', -1): [0], ('F', -1): [0], ('Br', -1): [0]}
MASS = {'H': 1.008, 'C': 12.011, 'N': 14.007, 'O': 15.999, 'S': 32.06, 'P': 30.974, 'F': 18.998,
        'Cl': 35.45, 'Br': 79.904}


class Mol:
    def __init__(self):
        self.atoms = []          # dict(element, charge, aromatic)
        self.bonds = {}          # frozenset({i,j}) -> order (1,2,3 or 1.5)
        self.hfix = {}           # atom -> fixed hydrogen count (copies of shared atoms)
        self.arom_rings = []     # aromatic template rings (atom ids in ring order)
        self.quin_rings = []     # quinoid rings: conjugated, NOT aromatic (localised bonds), may be written lower-case

    def add_atom(self, element, charge=0, aromatic=False):
        self.atoms.append(dict(element=element, charge=charge, aromatic=aromatic))
        return len(self.atoms) - 1

    def add_bond(self, i, j, order=1):
        assert i != j and frozenset((i, j)) not in self.bonds
        self.bonds[frozenset((i, j))] = order

    def order(self, i, j):
        return self.bonds[frozenset((i, j))]

    def nbrs(self, i):
        out = []
        for b in self.bonds:
            if i in b:
                (j,) = b - {i}
                out.append(j)
        return sorted(out)

    def bondsum(self, i):
        return sum(o for b, o in self.bonds.items() if i in b)

    def valences(self, i):
        a = self.atoms[i]
        if a['charge']:
            return CHARGED[(a['element'], a['charge'])]
        return USUAL_VALENCES[a['element']]

    def hcount(self, i):
        """expected hydrogens: smallest usual valence >= bond sum, minus bond sum"""
        if i in self.hfix:
            return self.hfix[i]
        a = self.atoms[i]
        bs = self.bondsum(i)
        if a['aromatic']:
            # each aromatic atom contributes one electron to the pi system: sigma bonds + 1
            nsig = len(self.nbrs(i))
            v = self.valences(i)[0]
            return max(v - nsig - 1, 0)
        for v in self.valences(i):
            if v >= bs:
                return int(v - bs)
        return 0

    def free(self, i):
        """free valence w.r.t. lowest valence (for generation)"""
        a = self.atoms[i]
        if a['aromatic']:
            return self.hcount(i)
        v = self.valences(i)[0]
        return v - self.bondsum(i)

    def graph(self):
        g = nx.Graph()
        g.add_nodes_from(range(len(self.atoms)))
        g.add_edges_from(tuple(b) for b in self.bonds)
        return g

    def to_json(self):
        return dict(atoms=[[a['element'], a['charge'], bool(a['aromatic'])] for a in self.atoms],
                    bonds=sorted([min(b), max(b), o] for b, o in self.bonds.items()),
                    h=[self.hcount(i) for i in range(len(self.atoms))])

    @staticmethod
    def from_json(d):
        m = Mol()
        for e, c, ar in d['atoms']:
            m.add_atom(e, c, ar)
        for i, j, o in d['bonds']:
            m.add_bond(i, j, o)
        return m

    def mass(self):
        return sum(MASS[a['element']] for a in self.atoms) + MASS['H'] * sum(self.hcount(i) for i in range(len(self.atoms)))


def disjoint_union(m1, m2):
    """mixture of two molecules as one model (atoms of m2 renumbered after those of m1)"""
    m = copy.deepcopy(m1)
    off = len(m1.atoms)
    for a in m2.atoms:
        m.atoms.append(dict(a))
    for b, o in m2.bonds.items():
        i, j = tuple(b)
        m.bonds[frozenset((i + off, j + off))] = o
    for r in m2.arom_rings:
        m.arom_rings.append([x + off for x in r])
    for r in m2.quin_rings:
        m.quin_rings.append([x + off for x in r])
    for k, v in m2.hfix.items():
        m.hfix[k + off] = v
    return m, off


def kekulized(R, m):
    """copy of m in which every aromatic template ring is written as one of its two Kekule
    structures (upper-case atoms, alternating single/double bonds); hydrogen counts are unchanged"""
    k = copy.deepcopy(m)
    for ring in m.arom_rings:
        off = R.randint(0, 1)
        for i in range(6):
            a, b = ring[i], ring[(i + 1) % 6]
            k.bonds[frozenset((a, b))] = 2 if (i + off) % 2 == 0 else 1
        for a in ring:
            k.atoms[a]['aromatic'] = False
    for i in range(len(m.atoms)):
        k.hfix[i] = m.hcount(i)
    return k


def lowered(m):
    """copy of m in which every quinoid ring (localised C=C bonds, two exocyclic double bonds) is
    WRITTEN the way SMILES allows for conjugated rings: lower-case ring atoms, no ring bond symbols.
    The ring is not aromatic - its Kekule structure is unique - so the reader has to come back to m."""
    k = copy.deepcopy(m)
    for ring in m.quin_rings:
        n_ = len(ring)
        for i in range(n_):
            k.bonds[frozenset((ring[i], ring[(i + 1) % n_]))] = 1.5
        for a in ring:
            k.atoms[a]['aromatic'] = True
            if m.atoms[a]['element'] == 'N' and m.hcount(a) == 1:
                k.hfix[a] = 1                       # pyrrole-type nitrogen: written [nH]
                k.atoms[a]['force_bracket'] = True
    return k


def model_graph(mj):
    """heavy-atom graph of a model molecule (json form) for isomorphism checks"""
    g = nx.Graph()
    for i, (e, c, ar) in enumerate(mj['atoms']):
        g.add_node(i, element=e, charge=c, h=mj['h'][i])
    for i, j, o in mj['bonds']:
        g.add_edge(i, j, order=o)
    return g


CHAIN_ELEMS = ['C'] * 6 + ['N', 'N', 'O', 'O', 'S', 'P']
TERM_ELEMS = ['C', 'C', 'N', 'O', 'O', 'F', 'Cl', 'Br', 'S']


def gen_mol(R, max_heavy=10, min_heavy=1, p_ring=0.5, p_arom=0.35, p_multi=0.4, p_charge=0.3,
            hyper=True, elements=None, p_quin=0.0, p_fused=0.0):
    m = Mol()
    n = R.randint(min(min_heavy, max_heavy), max_heavy)
    chain_elems = elements or CHAIN_ELEMS
    term_elems = elements or TERM_ELEMS
    m.add_atom(R.choice(chain_elems))

    def add_arom(attach=None):
        els = ['C'] * 6
        if R.random() < 0.4:
            els[R.randrange(6)] = 'N'
        ids = [m.add_atom(e, aromatic=True) for e in els]
        for a in range(6):
            m.add_bond(ids[a], ids[(a + 1) % 6], 1.5)
        m.arom_rings.append(ids)
        if 'N' in els and p_charge and R.random() < 0.3:
            # pyridinium: [nH+] or N-substituted [n+]
            nn = ids[els.index('N')]
            m.atoms[nn]['charge'] = 1
            if R.random() < 0.6:
                m.add_bond(nn, m.add_atom('C'), 1)
        if attach is not None:
            cands = [i for i in ids if m.atoms[i]['element'] == 'C']
            m.add_bond(attach, R.choice(cands), 1)
        return ids

    def add_fused(attach):
        # naphthalene / anthracene / phenanthrene: every ring bond aromatic (1.5)
        kind = R.choice(['naphthalene', 'anthracene', 'phenanthrene'])
        if kind == 'naphthalene':
            n_ = 10
            ring_edges = [(0, 1), (1, 2), (2, 3), (3, 4), (4, 5), (5, 6), (6, 7), (7, 8), (8, 9), (9, 0), (4, 9)]
            fusion = {4, 9}
        elif kind == 'anthracene':
            # c1ccc2cc3ccccc3cc2c1 : perimeter 0..13 plus two fusion bonds
            n_ = 14
            ring_edges = [(i, (i + 1) % 14) for i in range(14)] + [(3, 12), (5, 10)]
            fusion = {3, 12, 5, 10}
        else:
            # c1ccc2c(c1)ccc1ccccc21 : perimeter 0..13 plus fusion bonds (angular)
            n_ = 14
            ring_edges = [(i, (i + 1) % 14) for i in range(14)] + [(4, 13), (5, 10)]
            fusion = {4, 13, 5, 10}
        ids = [m.add_atom('C', aromatic=True) for _ in range(n_)]
        for a, b in ring_edges:
            m.add_bond(ids[a], ids[b], 1.5)
        m.fused = True
        m.add_bond(attach, ids[R.choice([x for x in range(n_) if x not in fusion])], 1)

    def add_quin(attach):
        # para- or ortho-quinoid six ring: two ring carbons carry an exocyclic double bond (=O, =CH2,
        # =NH, =S), the other four pair up into two ring C=C bonds (the only Kekule structure)
        ids = [m.add_atom('C') for _ in range(6)]
        exo = (0, 3) if R.random() < 0.6 else (0, 1)
        doubles = {(1, 2), (4, 5)} if exo == (0, 3) else {(2, 3), (4, 5)}
        for a in range(6):
            b = (a + 1) % 6
            m.add_bond(ids[a], ids[b], 2 if (a, b) in doubles else 1)
        for x in exo:
            m.add_bond(ids[x], m.add_atom(R.choice(['O', 'O', 'C', 'N', 'S'])), 2)
        m.quin_rings.append(ids)
        m.add_bond(attach, ids[R.choice([x for x in range(6) if x not in exo])], 1)

    guard = 0
    while len(m.atoms) < n and guard < 200:
        guard += 1
        cands = [i for i in range(len(m.atoms)) if m.free(i) >= 1]
        if not cands:
            break
        p = R.choice(cands)
        if p_quin and R.random() < p_quin / 3 and len(m.atoms) + 8 <= max_heavy + 6:
            add_quin(p)
            continue
        if p_fused and R.random() < p_fused / 3 and not getattr(m, 'fused', False):
            add_fused(p)
            continue
        if R.random() < p_arom / 3 and len(m.atoms) + 6 <= max_heavy + 4:
            add_arom(p)
            continue
        maxo = min(m.free(p), 3)
        if m.atoms[p]['aromatic']:
            maxo = 1
        o = 1
        if maxo > 1 and R.random() < p_multi:
            o = R.randint(2, maxo)
        pool = [e for e in (chain_elems + term_elems) if LOWEST_VALENCE[e] >= o]
        e = R.choice(pool)
        a = m.add_atom(e)
        m.add_bond(p, a, o)
    # ring closures among non aromatic atoms
    tries = 0
    while R.random() < p_ring and tries < 4:
        tries += 1
        g = m.graph()
        quin = {a for r in m.quin_rings for a in r}
        cands = [i for i in range(len(m.atoms)) if not m.atoms[i]['aromatic'] and m.free(i) >= 1 and i not in quin]
        pairs = [(i, j) for i, j in itertools.combinations(cands, 2)
                 if frozenset((i, j)) not in m.bonds and 2 <= nx.shortest_path_length(g, i, j) <= 6]
        if not pairs:
            break
        i, j = R.choice(pairs)
        m.add_bond(i, j, 1)
    # at most one double bond per non-aromatic ring system, none in small rings, no triple bonds in rings
    # (pysmiles declares any ring with alternating bonds aromatic)
    g = m.graph()
    comps = [set(c) for c in nx.biconnected_components(g)]
    # a quinoid ring that a later ring closure fused into a larger ring system is treated as ordinary
    m.quin_rings = [r for r in m.quin_rings if set(r) in comps]
    for comp in comps:
        if len(comp) < 3 or all(m.atoms[i]['aromatic'] for i in comp) or any(comp == set(r) for r in m.quin_rings):
            continue
        seen = False
        for b in sorted(m.bonds, key=sorted):
            if b <= comp and m.bonds[b] in (2, 3):
                if seen or m.bonds[b] == 3 or len(comp) < 5:
                    m.bonds[b] = 1
                seen = True
    # hypervalent S / P decoration
    if hyper:
        for i in range(len(m.atoms)):
            a = m.atoms[i]
            if a['element'] in 'SP' and not a['aromatic'] and R.random() < 0.5:
                target = R.choice([4, 6]) if a['element'] == 'S' else 5
                while m.bondsum(i) + 2 <= target and len(m.atoms) < max_heavy + 6:
                    o = m.add_atom('O')
                    m.add_bond(i, o, 2)
    # charges
    for i, a in enumerate(m.atoms):
        if a['aromatic'] or R.random() > p_charge / 2:
            continue
        bs = m.bondsum(i)
        nb = m.nbrs(i)
        if a['element'] == 'N' and bs <= 3 and all(m.order(i, j) == 1 for j in nb) and R.random() < .7:
            a['charge'] = 1
        elif a['element'] == 'O' and bs == 1 and m.order(i, nb[0]) == 1 and not m.atoms[nb[0]]['aromatic']:
            a['charge'] = -1
        elif a['element'] == 'S' and bs == 1:
            a['charge'] = -1
    return m


def partition(R, m, max_frags=5, min_frags=1):
    """random partition into connected fragments; returns fragment index per atom"""
    n = len(m.atoms)
    k = R.randint(min(min_frags, n), min(max_frags, n))
    seeds = R.sample(range(n), k)
    owner = {s: f for f, s in enumerate(seeds)}
    nb = {i: m.nbrs(i) for i in range(n)}
    while len(owner) < n:
        cands = [(i, j) for i in sorted(owner) for j in nb[i] if j not in owner]
        i, j = R.choice(cands)
        owner[j] = owner[i]
    return [owner[i] for i in range(n)]


def _ring_token(num):
    return str(num) if num < 10 else '%%%02d' % num


def atom_token(m, i, R, style):
    a = m.atoms[i]
    e = a['element']
    if e == 'H':
        return '[H]'        # an explicitly written hydrogen atom
    sym = e.lower() if a['aromatic'] else e
    if a['charge'] == 0 and style.get('bracket', 0) <= R.random() and not a.get('force_bracket'):
        return sym
    h = m.hcount(i)
    hs = '' if (h == 0 or (a['charge'] == 0 and not a.get('force_bracket') and style.get('omit_h', 0) > R.random())) else ('H' if h == 1 else 'H%d' % h)
    c = a['charge']
    cs = '' if c == 0 else ('+' if c == 1 else '-' if c == -1 else '%+d' % c)
    return '[%s%s%s]' % (sym, hs, cs)


def render_fragment(R, m, atoms, descriptors, style=None, slash=None, annot=None, info=None, tokens=None):
    """SMILES for the induced subgraph on `atoms` (connected).
    descriptors: dict atom -> list of descriptor texts like '[$a]' or '=[>b]' (incl. order symbol)
    Random root, neighbour order, ring digits, descriptor placement.
    Returns (text, pos_of: atom -> index of the atom in the text)"""
    style = style or {}
    info = info if info is not None else {}
    atoms = list(atoms)
    aset = set(atoms)
    root = R.choice(atoms)
    nb = {i: [j for j in m.nbrs(i) if j in aset] for i in atoms}
    for i in atoms:
        R.shuffle(nb[i])
    order_idx = {}
    parent = {root: None}
    children = defaultdict(list)
    closures = []
    seen_pairs = set()

    def dfs(u):
        order_idx[u] = len(order_idx)
        for v in nb[u]:
            if v == parent[u]:
                continue
            if v in order_idx:
                if frozenset((u, v)) not in seen_pairs:
                    seen_pairs.add(frozenset((u, v)))
                    closures.append((v, u) if order_idx[v] < order_idx[u] else (u, v))
                continue
            parent[v] = u
            children[u].append(v)
            dfs(v)
    dfs(root)
    ring_at = defaultdict(list)
    for cid, (a, b) in enumerate(closures):
        ring_at[a].append(cid)
        ring_at[b].append(cid)
    used = {}
    pos_of = {}
    out = []

    def bond_sym(u, v):
        if slash and frozenset((u, v)) in slash:
            lig, side = slash[frozenset((u, v))]
            # side: +1 = ligand above the double bond axis, -1 below; written lig->anchor: '/' goes up
            if u == lig:
                return '/' if side == -1 else '\\'
            return '/' if side == 1 else '\\'
        o = m.order(u, v)
        if o == 2:
            return '='
        if o == 3:
            return '#'
        if o == 1 and m.atoms[u]['aromatic'] and m.atoms[v]['aromatic']:
            return '-'
        if o == 1 and style.get('explicit_single', 0) > R.random():
            return '-'
        return ''

    def write(u):
        pos_of[u] = len(pos_of)
        tok = atom_token(m, u, R, style)
        clean_tok = tok
        if annot and u in annot:
            if not tok.startswith('['):
                tok = '[' + tok + ']'
            clean_tok = tok
            tok = tok[:-1] + ';' + annot[u] + ']'
        descs = list(descriptors.get(u, []))
        R.shuffle(descs)
        lead = []
        if u == root and descs and R.random() < 0.5:
            k = R.randint(1, len(descs))
            lead, descs = descs[:k], descs[k:]
            info['leading'] = True
        for d in lead:
            # leading form: '[$a]=' i.e. the symbol follows the descriptor
            if d[0] != '[':
                out.append(('desc', d[1:] + d[0], (u, d)))
            else:
                out.append(('desc', d, (u, d)))
        out.append(('atom', tok, (u, clean_tok)))
        if tok.startswith('[') and descriptors.get(u):
            info['bracket_at_cut'] = True
        rd = []
        for cid in ring_at[u]:
            a, b = closures[cid]
            if cid not in used:
                pool = [x for x in (list(range(0, 10)) * 3 + list(range(10, 100))) if x not in used.values()]
                num = R.choice(pool)
                used[cid] = num
                bs_ = bond_sym(a, b)
                if bs_ in ('/', '\\'):
                    info['slash_on_ring_bond'] = True    # direction of a mark on a ring bond: not modelled
                rd.append(bs_ + _ring_token(num))
            else:
                num = used.pop(cid)
                rd.append(_ring_token(num))
        # a '%nn' token is never followed directly by a bare digit token
        rd = [t for t in rd if not t.startswith('%')] + [t for t in rd if t.startswith('%')]
        kids = children[u]
        before, after, late = [], [], []
        for d in descs:
            r = R.random()
            if r < 0.4:
                before.append(d)
            elif r < 0.8 or not kids:
                after.append(d)
            else:
                late.append(d)
        # every child in parentheses (then the late descriptors close the atom: 'C(C)(C(=O)OC)[<]')
        paren_all = bool(late) and (len(kids) < 2 or R.random() < 0.4)
        if paren_all and len(kids) >= 2:
            info['desc_after_two_closed_branches'] = True
        if rd and (before or after):
            info['desc_next_to_ring_digit'] = True
        if rd and after and any(t[0] in '=#-' for t in rd):
            info['desc_after_ring_bond_symbol'] = True
        if late:
            info['desc_after_branch'] = True
        out.extend(('desc', d, (u, d)) for d in before)
        out.extend(('ring', t, None) for t in rd)
        out.extend(('desc', d, (u, d)) for d in after)

        def bond(u, v):
            bs = bond_sym(u, v)
            if bs in ('/', '\\'):
                out.append(('slash', bs, (u, v)))
                info.setdefault('slashes', []).append((u, v, bs))
            elif bs:
                out.append(('bond', bs, None))
        for k, v in enumerate(kids):
            last = (k == len(kids) - 1) and not paren_all
            if not last:
                out.append(('open', '(', None))
                bond(u, v)
                write(v)
                out.append(('close', ')', None))
                if late and k == len(kids) - (1 if paren_all else 2):
                    out.extend(('desc', d, (u, d)) for d in late)
                    late = []
            else:
                bond(u, v)
                write(v)
        out.extend(('desc', d, (u, d)) for d in late)
    write(root)
    if tokens is not None:
        tokens.extend(out)
    return ''.join(t[1] for t in out), pos_of


def label_stream(prefix='', style='letters'):
    """unique labels: a, b, .. (letters) | x1, x2, .. (numbered: one stem, different digits) | 1, 2, .. (digits)"""
    if style == 'numbered':
        for n in itertools.count(1):
            yield '%sx%d' % (prefix, n)
    if style == 'digits':
        for n in itertools.count(1):
            yield '%s%d' % (prefix, n)
    for n in itertools.count(1):
        for t in itertools.product('abcdefghijklmnopqrstuvwxyzABCDEFGHIJKLMNOPQRSTUVWXYZ', repeat=n):
            yield prefix + ''.join(t)


def label_style(R):
    return R.choice(['letters', 'letters', 'letters', 'numbered', 'digits'])


ORDER_SYM = {1: '', 1.5: '', 2: '=', 3: '#'}


def cut_descriptors(R, m, owner, kinds=('$', '><'), labels=None, feats=None):
    """one uniquely labelled complementary descriptor pair per cut bond.
    returns (desc[frag][atom] -> list of texts, base graph) or (None, None) when >4 cuts on a pair"""
    nfr = max(owner) + 1
    labels = labels or label_stream(style=label_style(R))
    feats = feats if feats is not None else set()
    desc = [defaultdict(list) for _ in range(nfr)]
    base = nx.Graph()
    base.add_nodes_from(range(nfr))
    groups = []
    for b in sorted(m.bonds, key=sorted):
        o = m.bonds[b]
        i, j = sorted(b)
        fi, fj = owner[i], owner[j]
        if fi == fj:
            continue
        # cuts of equal order that leave ONE atom (the hub) towards the same other fragment may carry identical
        # descriptors: whichever way they are paired, the same molecule results
        cand = [g for g in groups if g['key'] == (fi, fj, o) and
                ((g['hub'] is None and (g['first'][0] == i) != (g['first'][1] == j)) or g['hub'] == ('i', i) or g['hub'] == ('j', j))]
        if cand and R.random() < 0.5:
            g = cand[0]
            if g['hub'] is None:
                g['hub'] = ('i', i) if g['first'][0] == i else ('j', j)
            di, dj = g['d']
            feats.add('identical_descriptors_on_one_atom')
        else:
            lab = next(labels)
            kind = R.choice(kinds)
            if kind == '$':
                di, dj = '[$%s]' % lab, '[$%s]' % lab
            else:
                feats.add('kind_><')
                di, dj = ('[>%s]' % lab, '[<%s]' % lab) if R.random() < .5 else ('[<%s]' % lab, '[>%s]' % lab)
            groups.append(dict(key=(fi, fj, o), hub=None, first=(i, j), d=(di, dj)))
        desc[fi][i].append(ORDER_SYM[o] + di)
        desc[fj][j].append(ORDER_SYM[o] + dj)
        if o == 1.5:
            feats.add('aromatic_cut')
        elif o == 2:
            feats.add('double_cut')
        elif o == 3:
            feats.add('triple_cut')
        if m.atoms[i]['charge'] or m.atoms[j]['charge']:
            feats.add('charged_at_cut')
        if m.atoms[i]['aromatic'] and m.atoms[j]['aromatic'] and o == 1:
            feats.add('biaryl_cut')
        if base.has_edge(fi, fj):
            base.edges[fi, fj]['order'] += 1
            feats.add('ring_cut')
        else:
            base.add_edge(fi, fj, order=1)
    if any(o > 4 for _, _, o in base.edges(data='order')):
        return None, None
    return desc, base


def build_cgsmiles(R, m, owner, kinds=('$', '><'), style=None, names=None, feats=None, annot=None, slash=None,
                   zero_edges=()):
    """returns (string, info) with one fragment definition per fragment; None if rejected"""
    feats = feats if feats is not None else set()
    nfr = max(owner) + 1
    frag_atoms = [[i for i in range(len(m.atoms)) if owner[i] == f] for f in range(nfr)]
    desc, base = cut_descriptors(R, m, owner, kinds, feats=feats)
    if desc is None:
        return None, None
    for (fa, fb) in zero_edges:
        if not base.has_edge(fa, fb):
            base.add_edge(fa, fb, order=0)      # order-0 edge between separate molecules of a mixture
    names = names or ['F%d' % f for f in range(nfr)]
    frs = []
    posmap = {}
    rinfo = {}
    for f in range(nfr):
        s, pos = render_fragment(R, m, frag_atoms[f], desc[f], style, slash=slash, annot=annot, info=rinfo)
        for i, pp in pos.items():
            posmap[i] = (names[f], pp)
        frs.append('#%s=%s' % (names[f], s))
    feats.update(k for k, v in rinfo.items() if v and k != 'slashes')
    # the generator's own record of what is written where: [fragment name, atom position, ['$a2', ...]]
    digit = {'=': '2', '#': '3', '-': '1', '.': '0'}
    written = []
    for f in range(nfr):
        for i, ds in desc[f].items():
            if ds:
                written.append([names[f], posmap[i][1],
                                sorted(d[d.index('[') + 1:-1] + (digit[d[0]] if d[0] in digit else '1') for d in ds)])
    order = list(range(nfr))
    R.shuffle(order)
    frs_s = '{' + ','.join(frs[f] for f in order) + '}'
    base_s = write_base(R, base, names)
    return base_s + '.' + frs_s, dict(base=base, nfr=nfr, names=names, frag_block=frs_s, posmap=posmap,
                                      base_s=base_s, frag_defs=frs, slashes=rinfo.get('slashes', []), written=written)


def write_base(R, base, names, orders_sym=None, tokens=None, late_tokens=None):
    """own CGsmiles graph writer: random root / neighbour order; ring bond symbol at the opening
    marker; tokens: optional node -> full token text (default '[#name]')"""
    orders_sym = orders_sym or {0: '.', 1: '', 2: '=', 3: '#', 4: '$'}
    nodes = list(base.nodes)
    root = R.choice(nodes)
    nb = {i: sorted(base[i]) for i in nodes}
    for i in nodes:
        R.shuffle(nb[i])
    seen = {}
    parent = {root: None}
    children = defaultdict(list)
    closures = []
    done = set()

    def dfs(u):
        seen[u] = len(seen)
        for v in nb[u]:
            if v == parent[u]:
                continue
            if v in seen:
                e = frozenset((u, v))
                if e not in done:
                    done.add(e)
                    closures.append((v, u) if seen[v] < seen[u] else (u, v))
                continue
            parent[v] = u
            children[u].append(v)
            dfs(v)
    dfs(root)
    ring_at = defaultdict(list)
    for cid, (a, b) in enumerate(closures):
        ring_at[a].append(cid)
        ring_at[b].append(cid)
    used = {}
    out = []

    def write(u):
        out.append(tokens[u] if tokens else '[#%s]' % names[u])
        toks = []
        for cid in ring_at[u]:
            a, b = closures[cid]
            if cid not in used:
                pool = [x for x in (list(range(0, 10)) * 3 + list(range(10, 100))) if x not in used.values()]
                num = R.choice(pool)
                used[cid] = num
                toks.append((num, orders_sym[base.edges[a, b]['order']] + _ring_token(num)))
            else:
                num = used.pop(cid)
                toks.append((num, _ring_token(num)))
        toks.sort(key=lambda t: t[0] >= 10)
        out.extend(t for _, t in toks)
        kids = children[u]
        late = (late_tokens or {}).get(u, '')
        if late and len(kids) < 2:
            out.append(late)        # no closed branch to write it after
            late = ''
        for k, v in enumerate(kids):
            s = orders_sym[base.edges[u, v]['order']]
            if k < len(kids) - 1:
                out.append(s + '(')
                write(v)
                out.append(')')
                if late and k == len(kids) - 2:
                    out.append(late)    # descriptors written after the last closed branch of the node
                    late = ''
            else:
                out.append(s)
                write(v)
    write(root)
    return '{' + ''.join(out) + '}'


def style_draw(R):
    return R.choice([dict(bracket=0.0, omit_h=0.0, explicit_single=0.0),
                     dict(bracket=0.15, omit_h=0.3, explicit_single=0.1),
                     dict(bracket=0.5, omit_h=0.0, explicit_single=0.3),
                     dict(bracket=0.15, omit_h=0.3, explicit_single=0.1)])


MOL_CLASSES = [
    dict(name='tiny', max_heavy=4, min_heavy=1, p_ring=0.3, p_arom=0.0, p_multi=0.4, p_charge=0.2),
    dict(name='chain', max_heavy=10, min_heavy=3, p_ring=0.1, p_arom=0.0, p_multi=0.5, p_charge=0.3),
    dict(name='cyclic', max_heavy=12, min_heavy=4, p_ring=0.8, p_arom=0.0, p_multi=0.3, p_charge=0.2),
    dict(name='aromatic', max_heavy=12, min_heavy=6, p_ring=0.3, p_arom=0.9, p_multi=0.3, p_charge=0.2),
    dict(name='mixed', max_heavy=14, min_heavy=5, p_ring=0.5, p_arom=0.5, p_multi=0.4, p_charge=0.3),
    # sulfur next to aromatic rings: in the text 'S' is then often directly followed by 'c' (the letters
    # of the element Sc), likewise 'C' + 'n'/'o'/'s' would be; exercises the tokenisation of atoms
    # quinoid rings written in lower case (conjugated but not aromatic; exocyclic C=O, C=C, C=N, C=S)
    dict(name='quinoid', max_heavy=12, min_heavy=9, p_ring=0.2, p_arom=0.2, p_multi=0.3, p_charge=0.1, p_quin=0.9),
    # fused aromatic ring systems (naphthalene, anthracene, phenanthrene)
    dict(name='fused_aromatic', max_heavy=8, min_heavy=3, p_ring=0.1, p_arom=0.1, p_multi=0.3, p_charge=0.1, p_fused=0.9),
    dict(name='thioaryl', max_heavy=12, min_heavy=7, p_ring=0.1, p_arom=0.9, p_multi=0.2, p_charge=0.1,
         elements=['S', 'S', 'C', 'C', 'N', 'O']),
]


def gen_mol_class(R, big=False, classes=None):
    c = dict(R.choice(classes or MOL_CLASSES))
    name = c.pop('name')
    if big:
        c['max_heavy'] += 6
    return gen_mol(R, **c), name


# ----------------------------------------------------------------------------------------
# result side helpers (operate on graphs returned by cgsmiles)
# ----------------------------------------------------------------------------------------
def heavy_graph(fine):
    """heavy-atom graph of a resolved all-atom molecule with hydrogen counts; raises ValueError
    on malformed hydrogens (H-H bond, H degree != 1, H bond order != 1)"""
    g = nx.Graph()
    for n, d in fine.nodes(data=True):
        if d.get('element') != 'H':
            g.add_node(n, element=d.get('element'), charge=d.get('charge', 0), h=0)
    for a, b, d in fine.edges(data=True):
        ea, eb = fine.nodes[a].get('element'), fine.nodes[b].get('element')
        if ea != 'H' and eb != 'H':
            g.add_edge(a, b, order=d.get('order'))
        elif ea == 'H' and eb == 'H':
            raise ValueError('H-H bond %r-%r' % (a, b))
        else:
            heavy = a if ea != 'H' else b
            g.nodes[heavy]['h'] += 1
            if d.get('order') != 1:
                raise ValueError('bond order %r to hydrogen %r-%r' % (d.get('order'), a, b))
    for n, d in fine.nodes(data=True):
        if d.get('element') == 'H' and fine.degree(n) != 1:
            raise ValueError('hydrogen %r has degree %d' % (n, fine.degree(n)))
    return g


def same_mol(g1, g2):
    if g1.number_of_nodes() != g2.number_of_nodes() or g1.number_of_edges() != g2.number_of_edges():
        return False
    return nx.is_isomorphic(g1, g2, node_match=lambda a, b: a == b,
                            edge_match=lambda a, b: a['order'] == b['order'])


def describe(g):
    return 'atoms=%s bonds=%s' % (
        sorted((d['element'], d['charge'], d['h']) for _, d in g.nodes(data=True)),
        sorted(d['order'] for _, _, d in g.edges(data=True)))


# ----------------------------------------------------------------------------------------
# shared atoms (squash operator, C10)
# ----------------------------------------------------------------------------------------
def build_shared(R, m, owner, share=0.5, kinds=('$', '><'), style=None, feats=None):
    """like build_cgsmiles, but a random subset of the cut bonds is replaced by sharing one end
    atom v (home fragment G): v is copied into the neighbouring fragment F together with all of
    v's bonds into F; both copies carry [!x].  Returns (string, info) or (None, None)."""
    feats = feats if feats is not None else set()
    nfr = max(owner) + 1
    m2 = copy.deepcopy(m)
    owner2 = list(owner)
    labels = label_stream(style=label_style(R))
    desc = [defaultdict(list) for _ in range(nfr)]
    base = nx.Graph()
    base.add_nodes_from(range(nfr))

    def bump(fi, fj):
        if base.has_edge(fi, fj):
            base.edges[fi, fj]['order'] += 1
        else:
            base.add_edge(fi, fj, order=1)
    cut = [tuple(sorted(b)) for b in sorted(m.bonds, key=sorted) if owner[min(b)] != owner[max(b)]]
    R.shuffle(cut)
    handled = set()
    nshared = 0
    copies = {}
    shared_home = Counter_()
    for (i, j) in cut:
        if (i, j) in handled:
            continue
        if R.random() < share:
            u, v = (i, j) if R.random() < .5 else (j, i)
            F, G = owner[u], owner[v]
            if (v, F) in copies:
                continue
            us = [x for x in m.nbrs(v) if owner[x] == F]
            if any(tuple(sorted((x, v))) in handled for x in us):
                continue
            vp = m2.add_atom(m.atoms[v]['element'], m.atoms[v]['charge'], m.atoms[v]['aromatic'])
            owner2.append(F)
            copies[(v, F)] = vp
            m2.hfix[vp] = m.hcount(v)
            for x in us:
                o = m.order(x, v)
                del m2.bonds[frozenset((x, v))]
                m2.add_bond(x, vp, o)
                handled.add(tuple(sorted((x, v))))
            lab = next(labels)
            desc[F][vp].append('[!%s]' % lab)
            # the partner is the home atom or - the sharing relation may be any tree over the fragments that
            # hold the atom - one of its earlier copies
            earlier = [(vq, Fq) for (vv, Fq), vq in copies.items() if vv == v and Fq != F]
            pa, PF = (v, G)
            if earlier and R.random() < 0.5:
                pa, PF = R.choice(earlier)
                feats.add('shared_atom_paired_with_an_earlier_copy')
            desc[PF][pa].append('[!%s]' % lab)
            bump(F, PF)
            nshared += 1
            shared_home[v] += 1
            if m.atoms[v]['aromatic']:
                feats.add('shared_aromatic')
            if m.atoms[v]['charge']:
                feats.add('shared_charged')
    # two bonded atoms of one fragment that are both shared into the same other fragment: that
    # fragment may contain their bond as well (the fragments then overlap in a bond)
    by_target = defaultdict(list)
    for (v, F), vp in copies.items():
        by_target[F].append((v, vp))
    for F, lst in by_target.items():
        for (v, vp), (w, wp) in itertools.combinations(lst, 2):
            b = frozenset((v, w))
            if b in m.bonds and owner[v] == owner[w] and R.chance(0.6):
                m2.add_bond(vp, wp, m.bonds[b])
                feats.add('fragments_overlap_in_a_bond')
    for (i, j) in cut:
        if (i, j) in handled:
            continue
        o = m.order(i, j)
        # an ordinary descriptor of a shared atom may be written on any of its copies
        hi = R.choice([i] + [vp for (v, F), vp in copies.items() if v == i and F != owner[j]])
        hj = R.choice([j] + [vp for (v, F), vp in copies.items() if v == j and F != owner2[hi]])
        fi, fj = owner2[hi], owner2[hj]
        if fi == fj:
            hi, hj, fi, fj = i, j, owner[i], owner[j]
        if hi != i or hj != j:
            feats.add('ordinary_descriptor_on_copy_of_shared_atom')
        lab = next(labels)
        kind = R.choice(kinds)
        if kind == '$':
            di = dj = '[$%s]' % lab
        else:
            di, dj = ('[>%s]' % lab, '[<%s]' % lab)
        desc[fi][hi].append(ORDER_SYM[o] + di)
        desc[fj][hj].append(ORDER_SYM[o] + dj)
        bump(fi, fj)
        if i in shared_home or j in shared_home:
            feats.add('shared_with_ordinary_descriptor')
    if any(o > 4 for _, _, o in base.edges(data='order')):
        return None, None
    if shared_home and max(shared_home.values()) >= 2:
        feats.add('atom_shared_by_3+')
    for i in range(len(m.atoms)):
        m2.hfix.setdefault(i, m.hcount(i))
    names = ['F%d' % f for f in range(nfr)]
    frs = []
    for f in range(nfr):
        atoms = [i for i in range(len(m2.atoms)) if owner2[i] == f]
        s, pos = render_fragment(R, m2, atoms, desc[f], style)
        frs.append('#%s=%s' % (names[f], s))
    R.shuffle(frs)
    frag_block = '{' + ','.join(frs) + '}'
    base_s = write_base(R, base, names)
    return base_s + '.' + frag_block, dict(nshared=nshared, nfr=nfr, natoms=len(m2.atoms), base=base,
                                           names=names, frag_block=frag_block)


def Counter_():
    from collections import Counter
    return Counter()
