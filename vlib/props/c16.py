"""C16 - sampled polymers are well-formed molecules built from the given fragments."""
import hashlib
from .. import env  # noqa
from .. import sampler, invariants
from ..runner import sut, expect, Fail, SutError, note

ID = 'C16'
RULE = ('cases: sampler configurations: 1-4 fragments (coarse node chains; 30 % all-atom molecules from the molecule '
        'generator), 1-4 descriptors each (kinds $ > <, labels none/A/B, orders 1-2, one guaranteed >/< propagation '
        'pair), reactivity tables (uniform, with explicit zeros, with missing keys, empty; keys with and without '
        'order suffix), conditional tables, terminal sets, seeds, target weights (<=0 ... 400), optional start '
        'fragment. Oracle (output + reconstructed growth history): connected; keys 0..n-1 ordered by fragment; '
        'fragids contiguous; #inter-fragment bonds = #fragments-1 and the quotient is a tree; the bond to fragment '
        'k+1 is the k-th growth step and joins complementary descriptors of equal order ($ with $, > with < of '
        'identical label) with that bond order; replaying the history on a model of open descriptors shows the '
        'site descriptor was open and the partner is written on the new copy, none used twice; each copy is '
        'isomorphic to its template; all-atom samples satisfy valence completeness and element+index atom names. '
        'A sampler exception is accepted only when a dead end (no open descriptor, all selectable weights zero, '
        'no complementary descriptor) was reachable in the state of the failing growth step. non-trivial = >=3 '
        'growth steps; distinct = configuration')
ASSUMPTIONS = ['table keys for labels that end in a digit are always written with the explicit order suffix (the API reads a trailing digit of a key as the order)',
               'masses are positive', 'templates are read through cgsmiles\' own fragment reader']


def budget(tier):
    if tier == 'thorough':
        return dict(examples=6000, shards=16, procs=16)
    return dict(examples=1500, shards=4, procs=4)


BIG_MONOMERS = ['[>]COC[<]', '[>]CC([<])C', '[>]CC([<])c1ccccc1', '[>]CC([<])C(=O)OC', '[>]C(F)(F)[<]', '[>]NCC(=O)[<]']


def gen_big(R):
    """all-atom samples of more than 1024 atoms (polymer-sized targets)"""
    mons = R.sample(BIG_MONOMERS, R.choice([1, 2, 2, 3]))
    s = '{' + ','.join('#M%d=%s' % (i, t) for i, t in enumerate(mons)) + '}'
    return dict(input=s, pr={'>1': 1.0, '<1': round(R.uniform(0.2, 1.0), 2)}, fragr={}, term=[], masses=None, all_atom=True,
                seed=R.randint(0, 10 ** 6), target=R.choice([9000, 12000, 16000]), start=R.choice([None, 'M0']), expected_mass={},
                features=['all_atom', 'sample_of_1000+_atoms', 'nfrag:%d' % len(mons)])


def gen(R, tier):
    if R.randint(0, 999) in (437, 438, 439, 440, 441):     # ~0.5 % (a mid-range value: not favoured by the skew of bounded draws)
        return gen_big(R)
    return sampler.gen_cfg(R, tier)


def key(case):
    return repr(sorted((k, repr(v)) for k, v in case.items() if k != 'features'))


def sample_repr(case):
    return {k: case[k] for k in ('input', 'pr', 'fragr', 'term', 'masses', 'all_atom', 'seed', 'target', 'start')}


def evaluate_cfg(case, want):
    smp, g, err = sampler.run_cfg(case)
    if g is None:
        e, open_bonds = err
        if e.type in sampler.DEAD_END and sampler.dead_end_possible(case, smp, open_bonds):
            note('dead_end_rejected')
            return None
        raise e
    info = sampler.analyse(case, smp, g, want)
    note('samples_analysed')
    note('growth_steps', info['steps'])
    case['_steps'] = info['steps']
    if info['steps'] >= 3:
        note('samples_with_3+_growth_steps')
    return info


def nontrivial(case):
    return case.get('_steps', 0) >= 3


def oracle(case):
    evaluate_cfg(case, {'structure'})


def sample_digest(case):
    """used by the hash-seed worker (C17)"""
    try:
        smp, g, err = sampler.run_cfg(case)
    except SutError as e:
        return 'EXC:' + e.sig
    if g is None:
        return 'EXC:' + err[0].type
    return hashlib.sha1(invariants.dump(g).encode()).hexdigest()
