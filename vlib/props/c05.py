"""C05 - the multiplication operator is shorthand for writing the unit out.
metamorphic: read(shorthand) ~ read(longhand), longhand == reference interpreter."""
import networkx as nx
from .. import env  # noqa
from .. import gram
from ..runner import sut, expect
from .c04 import check_graph

ID = 'C05'
RULE = ('cases: a multiplier-free grammar AST (C04 generator) decorated with |n on nodes (first node, inside '
        'branches, before a bond symbol, annotated) and on branch units anchor+branch (n in 1,2,3,4,12; optional '
        'bond symbol between copies and after the last copy; unit contents: bond orders, annotations, nested '
        'branches, node multipliers, nested unit multipliers, rings closed inside the unit); about 2 %: one polymer-sized '
        'multiplier (100-250) on a node or a small unit; plus an exhaustive '
        'enumeration of small units. Oracle: read(shorthand) isomorphic (names, all annotation attributes, orders) '
        'to read(longhand written out on the AST); longhand equals the reference interpreter exactly; node-only '
        'multipliers additionally give identical numbering; annotation-free strings are also read as the body of a '
        'coarse fragment definition (no enclosing braces), shorthand and longhand. non-trivial = some multiplier n>=2; distinct = string')
ASSUMPTIONS = ['a multiplied anchor has exactly one branch and carries no ring marker (no documented meaning otherwise)',
               'ring ids used inside a multiplied unit are used nowhere else']

NODE_ONLY = {'node_mult', 'node_mult_with_branch', 'node_mult_then_sym', 'node_mult_1', 'node_mult_first', 'node_mult_in_branch',
             'node_mult_annot'}

FUZZ = dict(campaigns=8, runs=6000)


def budget(tier):
    if tier == 'thorough':
        return dict(examples=12000, shards=16, procs=16)
    return dict(examples=2000, shards=4, procs=4)


def make_case(ast, extra_feats=()):
    feats = gram.mult_features(ast) | set(extra_feats)
    lh = gram.expand(ast)
    try:
        exp = gram.expected(lh)
    except gram.Invalid:
        return None
    f = set(feats) | {'base:' + x for x in gram.features(lh) if x in ('ring', 'close_close', 'annotation')}
    return dict(input=gram.render(ast), longhand=gram.render(lh), expect=exp, features=sorted(f),
                node_only=bool(set(feats) <= NODE_ONLY | {'n>=2', 'enumerated'}))


def gen(R, tier):
    if R.chance(0.012):
        return make_case(gram.gen_big_mult_ast(R), {'three_or_four_digit_multiplier'})
    lo, hi = R.choice([(1, 3), (2, 6), (4, 10)])
    style = R.choice(['nodes', 'units', 'units', 'mixed', 'annotated', 'ringy'])
    kw = dict(max_nodes=hi, min_nodes=lo, p_branch=0.45, p_ring=0.1, p_sym=0.35, max_depth=3, max_branches=2)
    pn, pb = 0.3, 0.5
    if style == 'nodes':
        kw.update(p_branch=0.2)
        pn, pb = 0.6, 0.0
    elif style == 'units':
        pn, pb = 0.1, 0.7
    elif style == 'annotated':
        kw.update(p_annot=0.5)
    elif style == 'ringy':
        kw.update(p_ring=0.35)
    if style == 'units':
        return make_case(gram.gen_unit_ast(R, p_annot=R.choice([0.0, 0.0, 0.3])))
    ast = gram.gen_ast(R, names=('A', 'B', 'C', 'D'), **kw)
    try:
        gram.interpret(ast)
    except gram.Invalid:
        return None
    gram.add_multipliers(R, ast, p_node=pn, p_branch=pb)
    if not gram.mult_features(ast):
        # force one multiplier on the first eligible node
        for nd in gram.all_nodes(ast):
            if not nd.rings and not nd.branches:
                nd.mult = R.choice(gram.MULTS)
                break
        else:
            return None
    return make_case(ast)


def case_from_text(text):
    return make_case(gram.parse(text))


def _unit_asts():
    """small exhaustive family: prefix? anchor sym ( unit ) between |n after? suffix?"""
    import itertools
    syms = (None, 2, 0)
    units = []
    # unit chains of 1..2 nodes with optional nested branch of 1 node
    for names in itertools.product('BC', repeat=1):
        units.append(('1', names))
    for names in itertools.product('BC', repeat=2):
        units.append(('2', names))
        units.append(('1+1', names))   # node with nested branch
    for (shape, names), o_anchor, o_inner, between, after, n, prefix, suffix in itertools.product(
            units, syms, syms, syms, syms, (1, 2, 3), (False, True), (False, True)):
        if shape == '1' and o_inner is not None:
            continue
        if not suffix and after is not None:
            continue
        anchor = gram.Node('A')
        if shape == '1':
            sub = [gram.Node(names[0])]
        elif shape == '2':
            a, b = gram.Node(names[0]), gram.Node(names[1])
            a.nxt = o_inner
            sub = [a, b]
        else:
            a, b = gram.Node(names[0]), gram.Node(names[1])
            a.branches.append([o_inner, [b], None, None])
            sub = [a]
        anchor.branches.append([o_anchor, sub, n, between])
        chain = [anchor]
        if suffix:
            anchor.nxt = after
            chain.append(gram.Node('E'))
        if prefix:
            p = gram.Node('P')
            chain.insert(0, p)
        yield chain, {'enumerated'}
    # node multipliers
    for n, o_before, o_after, prefix, suffix in itertools.product((1, 2, 3, 12), syms, syms, (False, True), (False, True)):
        if not prefix and o_before is not None:
            continue
        if not suffix and o_after is not None:
            continue
        nd = gram.Node('A')
        nd.mult = n
        chain = [nd]
        if suffix:
            nd.nxt = o_after
            chain.append(gram.Node('E'))
        if prefix:
            p = gram.Node('P')
            p.nxt = o_before
            chain.insert(0, p)
        yield chain, {'enumerated'}


def enumerate_cases(tier):
    for chain, feats in _unit_asts():
        case = make_case(chain, feats)
        if case is not None:
            yield case


def nontrivial(case):
    return 'n>=2' in case['features']


def classes(case):
    return case['features']


def _nm(a, b):
    return a == b


def _em(a, b):
    return a.get('order') == b.get('order')


def oracle(case):
    from cgsmiles import read_cgsmiles
    g2 = sut(read_cgsmiles, case['longhand'])
    try:
        check_graph(g2, case['expect'], 'longhand')
    except Exception as e:
        if hasattr(e, 'kind'):
            e.kind = 'longhand:' + e.kind
        raise
    g1 = sut(read_cgsmiles, case['input'])
    if case['node_only']:
        check_graph(g1, case['expect'], 'shorthand')
    expect(g1.number_of_nodes() == g2.number_of_nodes(), 'multiplier:node-count',
           lambda: 'shorthand has %d nodes, longhand %s has %d' % (g1.number_of_nodes(), case['longhand'],
                                                                   g2.number_of_nodes()))
    expect(g1.number_of_edges() == g2.number_of_edges(), 'multiplier:edge-count',
           lambda: 'shorthand has %d edges, longhand %s has %d' % (g1.number_of_edges(), case['longhand'],
                                                                   g2.number_of_edges()))
    expect(nx.is_isomorphic(g1, g2, node_match=_nm, edge_match=_em), 'multiplier:not-isomorphic',
           lambda: 'shorthand edges %r / longhand %s edges %r' % (
               sorted((min(a, b), max(a, b), o) for a, b, o in g1.edges(data='order')), case['longhand'],
               sorted((min(a, b), max(a, b), o) for a, b, o in g2.edges(data='order'))))
    if ';' not in case['input']:
        # the same text as the body of a coarse fragment definition (read without enclosing braces; a
        # multiplier may then be the very last token of the text)
        from cgsmiles.read_fragments import read_fragments
        f1 = sut(read_fragments, '{#X=%s}' % case['input'][1:-1], all_atom=False)['X']
        f2 = sut(read_fragments, '{#X=%s}' % case['longhand'][1:-1], all_atom=False)['X']
        ok = (f1.number_of_nodes() == f2.number_of_nodes() == g2.number_of_nodes() and
              f1.number_of_edges() == f2.number_of_edges() == g2.number_of_edges() and
              nx.is_isomorphic(f1, f2, node_match=lambda a, b: a.get('atomname') == b.get('atomname'), edge_match=_em) and
              nx.is_isomorphic(f1, g2, node_match=lambda a, b: a.get('atomname') == b.get('fragname'), edge_match=_em))
        expect(ok, 'multiplier:coarse-fragment-body',
               lambda: 'as coarse fragment #X=%s: %d nodes / %d edges, written out: %d / %d, as graph string %d / %d' % (
                   case['input'][1:-1], f1.number_of_nodes(), f1.number_of_edges(), f2.number_of_nodes(), f2.number_of_edges(),
                   g2.number_of_nodes(), g2.number_of_edges()))
