"""C20 - malformed input is rejected, never silently resolved.
fault injection: valid string (C04/C05 generators + simple fragment sets) + exactly one fault,
at every position where that fault can be placed."""
import copy
from .. import env  # noqa
from .. import gram
from ..runner import sut, expect, Fail, SutError

ID = 'C20'
RULE = ('[additionally: definition of a lower-level fragment removed from a multi-level string; faulty fragment blocks read into a library that holds the names; surplus empty positional entries] '
        'cases: a valid string from the grammar generators (with fragment definitions where needed) plus exactly '
        'one injected fault of a drawn type, placed at EVERY position of that string where it can be placed (one '
        'variant per position): dangling ring marker (digit or %n; top level, nested branch, multiplied unit), '
        'ring bond duplicating an existing edge (chain neighbours, anchor/branch head, second ring bond on a '
        'pair), base node renamed to an undefined fragment while having an edge of order>=1, annotation with two '
        "'=', with too many positional values, with a non-numeric charge/weight (base node, coarse-fragment "
        'node, atomistic bracket atom). Oracle: the documented exception type is raised (SyntaxError; TypeError '
        'for the non-numeric value) by read_cgsmiles / read_fragments / MoleculeResolver...resolve_all and no '
        'graph is returned; the reference interpreter independently confirms that the faulty base graph is '
        'invalid. evaluations = cases (one case = one string with one fault type at all its positions; the number '
        'of faulty strings executed is coverage.notes.fault_variants); non-trivial = some fault located beyond the '
        'second node/atom; distinct = distinct set of faulty strings')
ASSUMPTIONS = ['the fault-free string is accepted (checked on every case, a rejected base string is a violation too)']

FAULTS = ['dangling', 'dangling', 'duplicate', 'duplicate', 'undefined', 'undefined', 'annot_base', 'annot_coarse',
          'annot_atom', 'dangling_frag', 'duplicate_frag']
EXC = {'two_eq': 'SyntaxError', 'too_many': 'SyntaxError', 'non_numeric': 'TypeError'}

FUZZ = dict(campaigns=8, runs=6000)


def budget(tier):
    if tier == 'thorough':
        return dict(examples=10000, shards=16, procs=16)
    return dict(examples=1600, shards=4, procs=4)


def _used_rids(ast):
    return {r[1] for nd in gram.all_nodes(ast) for r in nd.rings}


def _fresh_rid(R, ast, pct):
    used = _used_rids(ast)
    pool = [r for r in (([0] * 20 + list(range(10, 100))) if pct else ([0, 0, 0] + list(range(1, 10)))) if r not in used]
    if not pool:
        pool = [r for r in range(10, 100) if r not in used]
    return R.choice(pool)


def _marker(rid, pct):
    if pct and rid < 10:
        return '%0' + str(rid)
    return ('%' + str(rid)) if (pct or rid >= 10) else str(rid)


def _base_ast(R, allow_mult):
    lo, hi = R.choice([(2, 3), (3, 7), (6, 16)])
    ast = gram.gen_ast(R, names=('A', 'B', 'C'), max_nodes=hi, min_nodes=lo, p_branch=0.35, p_ring=0.2, p_sym=0.3,
                       p_annot=R.choice([0.0, 0.0, 0.3]), max_depth=3)
    try:
        gram.interpret(ast)
    except gram.Invalid:
        return None
    if allow_mult and R.chance(0.6):
        a2 = copy.deepcopy(ast)
        gram.add_multipliers(R, a2, p_node=0.4, p_branch=0.6)
        bad = {'ring_in_unit', 'branch_mult_in_unit', 'unit_ends_close_close', 'multiple_nested_branches_in_unit',
               'unit_after_closed_branch'}
        if not (gram.mult_features(a2) & bad):
            try:
                gram.interpret(gram.expand(a2))
                return a2
            except gram.Invalid:
                pass
    return ast


ATOMS = ['C', 'O', 'N', 'S', '[CH2]', '[NH]', 'C', 'C']


def _frag_atoms(R, coarse):
    n = R.randint(1, 5)
    if coarse:
        return ['[#%s]' % R.choice(['a', 'b', 'SC1', 'TC5']) for _ in range(n)]
    return [R.choice(ATOMS) for _ in range(n)]


def _frag_text(atoms, branch_at=None):
    """[$]a0 a1 (a2) a3[$] ; branch_at: index of an atom put in parentheses"""
    out = ['[$]']
    for i, a in enumerate(atoms):
        if branch_at is not None and i == branch_at and 0 < i < len(atoms) - 1:
            out.append('(' + a + ')')
        else:
            out.append(a)
    out.append('[$]')
    return ''.join(out)


def _annotate_atom(tok, ann):
    if tok.startswith('['):
        return tok[:-1] + ann + ']'
    return '[' + tok + ann + ']'


def _bad_annotation(R, level):
    """(kind, text) of a faulty annotation for the level base|frag"""
    kind = R.choice(['two_eq', 'too_many', 'non_numeric'])
    if kind == 'two_eq':
        text = R.choice([';w=ab=c', ';foo=a=b', ';q=1=2' if level == 'base' else ';w=1=2', ';w=0.5;k==v',
                         ';q=1=2;q=1' if level == 'base' else ';w=1=2;w=1', ';foo=a=b;foo=a'])
    elif kind == 'too_many':
        if level == 'base':
            text = R.choice([';1;2;3', ';0;0.5;abc', ';1;1;1;1', ';0;0.5;', ';1;2;;'])
        else:
            text = R.choice([';0.5;R;z', ';1;S;1;2', ';0.5;R;'])
    else:
        if level == 'base':
            text = R.choice([';q=abc', ';w=x1', ';abc', ';1;abc', ';w=1,5', ';q=--1'])
        else:
            text = R.choice([';w=abc', ';abc', ';w=1,5' if False else ';w=one', ';w=0.5.1'])
    return kind, text


def gen_undefined_deep(R, tier):
    """a multi-level string in which the definition of one fragment of a LOWER level is missing: the node that
    needs it only appears after one or two resolution steps and is bonded through descriptors"""
    from .. import resgen
    import re
    c = resgen.gen_cut_string(R, tier, min_frags=2, with_levels=R.choice([1, 2]))
    if c is None:
        return None
    blocks = re.findall(r"\{[^\}]+\}", c['input'])
    variants = []
    for lv in range(2, len(blocks)):
        defs = blocks[lv][1:-1].split(',')
        if len(defs) < 2:
            continue
        k = R.randrange(len(defs))
        name = defs[k][1:defs[k].index('=')]
        faulty = blocks[:lv] + ['{' + ','.join(d for i, d in enumerate(defs) if i != k) + '}'] + blocks[lv + 1:]
        variants.append(dict(input='.'.join(faulty), call='resolve', coarse=False, exc='SyntaxError', pos=2,
                             fault='definition of fragment %s removed from block %d of a %d-block string' % (name, lv, len(blocks))))
    if not variants:
        return None
    return dict(input=c['input'], variants=variants, fault='undefined', features=['undefined', 'undefined_at_a_lower_level'],
                base_call='resolve', base_coarse=False)


def gen(R, tier):
    if R.chance(0.05):
        return gen_undefined_deep(R, tier)
    fault = R.choice(FAULTS)
    variants = []
    in_fragment = fault.endswith('_frag')
    if in_fragment:
        fault = fault[:-5]

    def wrap(ast_):
        # the faulty graph as the only coarse fragment of a two-level string (pattern without braces)
        if not in_fragment:
            return gram.render(ast_)
        return '{[#X]}.{#X=[$]' + gram.render_chain(ast_) + '}'
    if fault in ('dangling', 'duplicate', 'annot_base'):
        ast = _base_ast(R, allow_mult=(fault == 'dangling' and not in_fragment))
        if ast is None:
            return None
        if in_fragment:
            # annotations of the base-graph dialect (q, w) do not belong into a fragment
            for nd_ in gram.all_nodes(ast):
                nd_.annot, nd_.attrs = '', {}
        base = wrap(ast)
        nodes = list(gram.all_nodes(ast))
        if fault == 'dangling':
            pct = R.chance(0.4)
            o = R.choice([None, None, 0, 2])
            rid = _fresh_rid(R, ast, pct)
            in_unit = _nodes_in_units(ast)
            for i, nd in enumerate(nodes):
                # a marker inside a multiplied unit is repeated with the unit and would pair up
                # with its own copy: not a dangling marker
                if nd.mult is not None or id(nd) in in_unit:
                    continue
                a2 = copy.deepcopy(ast)
                n2 = list(gram.all_nodes(a2))[i]
                n2.rings.append([o, rid, _marker(rid, pct)])
                gram._order_markers(n2)
                _confirm_invalid(a2)
                variants.append(dict(input=wrap(a2), call='frag' if in_fragment else 'read', exc='SyntaxError', pos=i,
                                     coarse=True, fault='dangling ring marker %s at node %d%s' % (
                                         _marker(rid, pct), i, ' of a coarse fragment' if in_fragment else '')))
        elif fault == 'duplicate':
            _, edges = gram.interpret(ast)
            pct = R.chance(0.4)
            o = R.choice([None, None, 0, 2])
            rid = _fresh_rid(R, ast, pct)
            for (a, b) in sorted(edges):
                a2 = copy.deepcopy(ast)
                n2 = list(gram.all_nodes(a2))
                n2[a].rings.append([o, rid, _marker(rid, pct)])
                n2[b].rings.append([None, rid, _marker(rid, pct)])
                gram._order_markers(n2[a])
                gram._order_markers(n2[b])
                _confirm_invalid(a2)
                variants.append(dict(input=wrap(a2), call='frag' if in_fragment else 'read', exc='SyntaxError', pos=b,
                                     coarse=True, fault='ring bond %s duplicating edge %d-%d%s' % (
                                         _marker(rid, pct), a, b, ' of a coarse fragment' if in_fragment else '')))
        else:
            kind, text = _bad_annotation(R, 'base')
            for i, nd in enumerate(nodes):
                a2 = copy.deepcopy(ast)
                n2 = list(gram.all_nodes(a2))[i]
                n2.annot = text
                variants.append(dict(input=gram.render(a2), call='read', exc=EXC[kind], pos=i,
                                     fault='annotation %r (%s) on base node %d' % (text, kind, i)))
    else:
        ast = _base_ast(R, allow_mult=False)
        if ast is None:
            return None
        nodes = list(gram.all_nodes(ast))
        coarse = (fault == 'annot_coarse') or (fault == 'undefined' and R.chance(0.4))
        names = sorted({nd.name for nd in nodes})
        frags = {}
        for nm in names:
            at = _frag_atoms(R, coarse)
            frags[nm] = (at, R.randint(1, len(at)) if R.chance(0.3) else None)

        def fragstr(fr):
            return '{' + ','.join('#%s=%s' % (nm, _frag_text(*fr[nm])) for nm in sorted(fr)) + '}'
        base = gram.render(ast) + '.' + fragstr(frags)
        if fault == 'undefined':
            if R.chance(0.4):
                # a legitimate virtual node of the same undefined name elsewhere in the string
                v = gram.Node('UNDEF')
                if R.chance(0.5):
                    v.nxt = 0
                    ast.insert(0, v)
                else:
                    ast[-1].nxt = 0
                    ast.append(v)
                nodes = list(gram.all_nodes(ast))
                base = gram.render(ast) + '.' + fragstr(frags)
            _, edges = gram.interpret(ast)
            for i, nd in enumerate(nodes):
                if nd.name == 'UNDEF':
                    continue
                if not any(o >= 1 for (a, b), o in edges.items() if i in (a, b)):
                    continue
                a2 = copy.deepcopy(ast)
                list(gram.all_nodes(a2))[i].name = 'UNDEF'
                if R.chance(0.3):
                    # a bonded neighbour is undefined as well
                    nb = [b if a == i else a for (a, b), o in edges.items() if i in (a, b) and o >= 1]
                    if nb:
                        list(gram.all_nodes(a2))[R.choice(nb)].name = 'UNDEF'
                gn, ge = gram.interpret(a2)
                order = list(range(len(gn)))
                R.shuffle(order)
                variants.append(dict(input=gram.render(a2) + '.' + fragstr(frags), call='resolve',
                                     coarse=coarse, exc='SyntaxError', pos=i,
                                     graph=dict(nodes=[[k, gn[k][0]] for k in order], edges=[[a, b, o] for (a, b), o in ge.items()],
                                                frags=fragstr(frags)),
                                     fault='node %d renamed to a fragment that is not defined' % i))
        else:
            kind, text = _bad_annotation(R, 'frag')
            pos = 0
            for nm in names:
                at, br = frags[nm]
                for k in range(len(at)):
                    f2 = dict(frags)
                    at2 = list(at)
                    at2[k] = _annotate_atom(at[k], text)
                    f2[nm] = (at2, br)
                    variants.append(dict(input=gram.render(ast) + '.' + fragstr(f2), call='resolve',
                                         coarse=coarse, exc=EXC[kind], pos=pos,
                                         frag_only=fragstr(f2),
                                         fault='annotation %r (%s) on atom %d of fragment %s' % (text, kind, k, nm)))
                    pos += 1
    if not variants:
        return None
    feats = {fault}
    if '|' in base:
        feats.add('with_multiplier')
    if '(' in base:
        feats.add('with_branch')
    if in_fragment:
        feats = {fault + '_in_coarse_fragment'} | (feats - {fault})
    return dict(input=base, variants=variants, fault=fault, features=sorted(feats),
                base_call=variants[0]['call'], base_coarse=variants[0].get('coarse', False))


def _nodes_in_units(chain, inside=False, out=None):
    out = set() if out is None else out
    for nd in chain:
        unit_anchor = any(b[2] is not None for b in nd.branches)
        if inside or unit_anchor:
            out.add(id(nd))
        for b in nd.branches:
            _nodes_in_units(b[1], inside or b[2] is not None, out)
    return out


def _confirm_invalid(ast):
    try:
        gram.interpret(gram.expand(ast))
    except gram.Invalid:
        return
    raise RuntimeError('generator bug: faulty AST is valid for the reference interpreter: ' + gram.render(ast))


def nontrivial(case):
    return any(v['pos'] >= 2 for v in case['variants'])


def key(case):
    return '|'.join(v['input'] for v in case['variants'])


def measure(case):
    return {'fault_variants': len(case['variants'])}


def classes(case):
    out = list(case['features'])
    out.append('variants:%s' % ('1' if len(case['variants']) == 1 else '2-5' if len(case['variants']) <= 5 else '6+'))
    return out


def _call(kind, text, coarse):
    from cgsmiles import read_cgsmiles, MoleculeResolver
    if kind == 'read':
        return read_cgsmiles(text)
    return MoleculeResolver.from_string(text, last_all_atom=not coarse).resolve_all()


def _call_graph(spec, coarse):
    import networkx as nx
    from cgsmiles import MoleculeResolver
    g = nx.Graph()
    for k, name in spec['nodes']:
        g.add_node(k, fragname=name)
    for a, b, o in spec['edges']:
        g.add_edge(a, b, order=o)
    return MoleculeResolver.from_graph(spec['frags'], g, last_all_atom=not coarse).resolve_all()


def oracle(case):
    from cgsmiles import read_fragments
    # the fault-free string must be accepted
    sut(_call, 'resolve' if case['base_call'] == 'frag' else case['base_call'], case['input'], case['base_coarse'])
    for v in case['variants']:
        calls = [('resolve' if v['call'] == 'frag' else v['call'], v['input'], v.get('coarse', False))]
        if v['call'] == 'frag':
            block = v['input'].split('.', 1)[1]
            try:
                sut(read_fragments, block, all_atom=False)
            except SutError as e:
                expect(e.type == v['exc'], 'fault:wrong-exception',
                       lambda: 'read_fragments: %s: expected %s, got %s (%s)' % (v['fault'], v['exc'], e.sig, e.msg))
            else:
                raise Fail('fault:accepted', 'read_fragments: %s: no error for %s' % (v['fault'], block))
            # the same faulty block read INTO a library that already holds (valid) fragments of these names
            try:
                lib = read_fragments(case['input'].split('.', 1)[1], all_atom=False)
            except Exception:
                lib = None
            if lib is not None:
                try:
                    sut(read_fragments, block, all_atom=False, fragment_dict=lib)
                except SutError as e:
                    expect(e.type == v['exc'], 'fault:wrong-exception',
                           lambda: 'read_fragments(fragment_dict=library): %s: expected %s, got %s (%s)' % (v['fault'], v['exc'], e.sig, e.msg))
                else:
                    raise Fail('fault:accepted', 'read_fragments(%s, fragment_dict=<library with these names>): %s: no error' % (block, v['fault']))
        if 'graph' in v:
            try:
                sut(_call_graph, v['graph'], v.get('coarse', False))
            except SutError as e:
                expect(e.type == v['exc'], 'fault:wrong-exception',
                       lambda: 'from_graph: %s: expected %s, got %s' % (v['fault'], v['exc'], e.sig))
            else:
                raise Fail('fault:accepted', 'from_graph (nodes inserted as %r): %s: no error, a graph was returned' % (
                    [k for k, _ in v['graph']['nodes']], v['fault']))
        for kind, text, coarse in calls:
            try:
                res = sut(_call, kind, text, coarse)
            except SutError as e:
                expect(e.type == v['exc'], 'fault:wrong-exception',
                       lambda: '%s: expected %s, got %s (%s) for %s' % (v['fault'], v['exc'], e.sig, e.msg, text))
                continue
            raise Fail('fault:accepted', '%s: no error raised, a graph was returned for %s' % (v['fault'], text))
        if 'frag_only' in v:
            try:
                sut(read_fragments, v['frag_only'], all_atom=not v.get('coarse', False))
            except SutError as e:
                expect(e.type == v['exc'], 'fault:wrong-exception',
                       lambda: 'read_fragments: %s: expected %s, got %s' % (v['fault'], v['exc'], e.sig))
                continue
            raise Fail('fault:accepted', 'read_fragments: %s: no error for %s' % (v['fault'], v['frag_only']))
