"""C04 - the graph reader implements the documented grammar.
generator: G-GRAPH ASTs (no multipliers) -> text; oracle: O-REFGRAPH reference interpreter."""
from .. import env  # noqa
from .. import gram
from ..runner import sut, expect

ID = 'C04'
RULE = ('[ring ids may be closed and re-opened on the same node; annotation values with blanks and parentheses; look-alike free keys] '
        'cases: (a) exhaustive enumeration of all grammar ASTs up to a node bound over names {A,B}, '
        'bond symbols {none,=,.}, nesting depth <=2, at most one ring bond (digit and %nn marker, every '
        'non-adjacent pair, every ring symbol); (b) Hypothesis-driven random ASTs (size classes up to 24 '
        'nodes, nesting <=4, <=3 simultaneously open rings, digit/%n/%0n/%nnn markers with reuse, all five '
        'bond symbols in every documented position, base-graph annotations). Oracle: independent '
        'reference interpreter of the AST (node order, names, annotation values, exact edge set and orders). '
        'non-trivial = has a branch, a ring bond or a non-default bond order; distinct = distinct string')
ASSUMPTIONS = ['ring-bond symbols are written at the opening marker only (docs/tests do so)',
               "a '%n' marker is never directly followed by a bare digit marker (would read as one marker)",
               'annotation values avoid the characters ; = , [ ] { } ( ) |']

FUZZ = dict(campaigns=8, runs=6000)


def budget(tier):
    if tier == 'thorough':
        return dict(examples=15000, shards=16, procs=16)
    return dict(examples=2500, shards=4, procs=4)


SIZES = [(1, 3), (4, 8), (9, 24)]


def gen(R, tier):
    lo, hi = R.choice(SIZES)
    style = R.choice(['plain', 'branchy', 'ringy', 'symbols', 'annotated', 'mixed', 'mixed'])
    kw = dict(max_nodes=hi, min_nodes=lo)
    if style == 'plain':
        kw.update(p_branch=0.15, p_ring=0.05, p_sym=0.1)
    elif style == 'branchy':
        kw.update(p_branch=0.55, p_ring=0.05, p_sym=0.2, max_depth=4)
    elif style == 'ringy':
        kw.update(p_branch=0.2, p_ring=0.5, p_sym=0.3)
    elif style == 'symbols':
        kw.update(p_branch=0.35, p_ring=0.25, p_sym=0.8)
    elif style == 'annotated':
        kw.update(p_branch=0.3, p_ring=0.2, p_sym=0.3, p_annot=0.6)
    else:
        kw.update(p_branch=0.4, p_ring=0.3, p_sym=0.4, p_annot=0.2, max_depth=4)
    names = R.choice([('A', 'B', 'C'), ('PEO', 'PMA', 'OHter'), ('A1', 'b2', 'C_x', 'TC5')])
    ast = gram.gen_ast(R, names=names, **kw)
    return make_case(ast)


def make_case(ast):
    try:
        exp = gram.expected(ast)
    except gram.Invalid:
        return None
    return dict(input=gram.render(ast), expect=exp, features=sorted(gram.features(ast)))


def case_from_text(text):
    return make_case(gram.parse(text))


def enumerate_cases(tier):
    n = 4 if tier == 'thorough' else 3
    for ast in gram.enum_asts(n):
        case = make_case(ast)
        if case is not None:
            yield case


def nontrivial(case):
    f = set(case['features'])
    return bool(f & {'branch', 'ring', 'nondefault_order'})


def check_graph(g, exp, what='graph'):
    """compare a graph returned by read_cgsmiles with the reference expectation"""
    n = len(exp['nodes'])
    expect(list(g.nodes) == list(range(n)), 'nodes:numbering',
           lambda: '%s: node keys %r, expected 0..%d in order of appearance' % (what, list(g.nodes), n - 1))
    for i, (name, attrs) in enumerate(exp['nodes']):
        d = dict(g.nodes[i])
        expect(d.get('fragname') == name, 'nodes:name',
               lambda: '%s: node %d is %r, expected %r' % (what, i, d.get('fragname'), name))
        want = {'fragname': name, 'charge': 0.0, 'weight': 1.0}
        want.update(attrs)
        expect(d == want and all(type(d[k]) is type(want[k]) for k in want), 'nodes:annotation',
               lambda: '%s: node %d attributes %r, expected %r' % (what, i, d, want))
    got = {}
    for a, b, d in g.edges(data=True):
        got[(min(a, b), max(a, b))] = d.get('order')
    want = {(a, b): o for a, b, o in exp['edges']}
    expect(set(got) == set(want), 'edges:set',
           lambda: '%s: edges %r, expected %r' % (what, sorted(got), sorted(want)))
    bad = {e: (got[e], want[e]) for e in want if got[e] != want[e]}
    expect(not bad, 'edges:order', lambda: '%s: edge orders (got, expected) %r' % (what, bad))
    for e, o in got.items():
        expect(isinstance(o, int) and not isinstance(o, bool), 'edges:order-type',
               lambda: '%s: order of %r is %r' % (what, e, o))
        d = g.edges[e]
        expect(set(d) == {'order'}, 'edges:attributes', lambda: '%s: edge %r has attributes %r' % (what, e, d))


def oracle(case):
    from cgsmiles import read_cgsmiles
    g = sut(read_cgsmiles, case['input'])
    check_graph(g, case['expect'])
