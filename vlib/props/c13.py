"""C13 - bonding descriptors (and annotations, slash marks) are separated from fragment text exactly."""
import itertools
from collections import defaultdict
from .. import env  # noqa
from .. import gram, molgen
from ..runner import sut, expect

ID = 'C13'
RULE = ('[every text is read a second time after the caller emptied the first result] '
        'cases: a clean fragment text rendered by own writers (SMILES of a random molecule model: random root, '
        'branches, ring digits 1-9/%nn with ring-bond symbols, bracket atoms, two-letter elements, charges; or a '
        'coarse fragment from the grammar AST: branches, ring markers, bond symbols) into which the generator '
        'inserts - and records - bonding descriptors (kinds $ > < !, labels incl. ones ending/starting with '
        'digits, order symbols none - = # $ . ; 0-3 per atom; after the atom, before/after ring digits, after '
        'closed branches, leading with the symbol after the descriptor), ;annotations inside bracket atoms and '
        'slash marks; plus an exhaustive sub-run: every atom position x every descriptor form x before/after ring '
        'digits for a fixed list of small texts. Oracle: returned text == clean text, descriptor map == recorded '
        'map (atom index, kind+label+order, order per atom), annotation map == expectation, slash map == '
        'recorded marks. non-trivial = a descriptor that is neither the first nor the last token; distinct = text')
ASSUMPTIONS = ["descriptor order ':' is not generated (not a documented CGsmiles bond order)",
               'bare H only inside brackets', 'coarse fragment texts contain no multiplier (open finding F22 replayed)']

SYM_ORDER = {'': 1, '-': 1, '=': 2, '#': 3, '$': 4, '.': 0}
LABELS = ['', '', 'a', 'A', 'ab', 'A1', 'x2', '1A', '1', '12', 'b']
KINDS = ['$', '$', '>', '<', '!']

FUZZ = dict(campaigns=8, runs=6000)


def budget(tier):
    if tier == 'thorough':
        return dict(examples=12000, shards=16, procs=16)
    return dict(examples=1500, shards=4, procs=4)


def rand_desc(R, p_sym=0.4):
    sym = R.choice(['-', '=', '#', '$', '.', '=']) if R.chance(p_sym) else ''
    return sym + '[' + R.choice(KINDS) + R.choice(LABELS) + ']'


def stored(d):
    """'=[$a]' -> '$a2' (what the reader is expected to store)"""
    sym = d[:d.index('[')]
    body = d[d.index('[') + 1:-1]
    return body + str(SYM_ORDER[sym])


def expectation(tokens, pos_of, annot_attrs):
    clean = []
    bonding = defaultdict(list)
    ez = {}
    attrs = {}
    pos = -1
    for kind, text, meta in tokens:
        if kind == 'atom':
            pos += 1
            u, clean_tok = meta
            clean.append(clean_tok)
            if text.startswith('['):
                a = {'weight': 1.0}
                a.update(annot_attrs.get(u, {}))
                attrs[pos] = a
        elif kind == 'desc':
            u, d = meta
            bonding[pos_of[u]].append(stored(d))
        elif kind == 'slash':
            u, v = meta
            ez[pos + 1] = text
            ez[pos_of[u]] = text
        else:
            clean.append(text)
    return dict(clean=''.join(clean), bonding={str(k): v for k, v in bonding.items()},
                ez={str(k): v for k, v in ez.items()}, attrs={str(k): v for k, v in attrs.items()})


def gen_smiles(R, tier):
    m, cname = molgen.gen_mol_class(R, big=(tier == 'thorough' and R.chance(0.3)))
    n = len(m.atoms)
    descs = defaultdict(list)
    density = R.choice([0.15, 0.35, 0.7])
    for i in range(n):
        if R.chance(density):
            for _ in range(R.choice([1, 1, 1, 2, 3])):
                descs[i].append(rand_desc(R))
    if not descs:
        descs[R.randrange(n)].append(rand_desc(R))
    annot, annot_attrs = {}, {}
    if R.chance(0.5):
        for i in range(n):
            if R.chance(0.3):
                text, given = gram.gen_annotation(R, gram.FRAG_RESERVED)
                if text:
                    annot[i] = text[1:]
                    annot_attrs[i] = given
    slash = {}
    if R.chance(0.4) and n > 1:
        g = m.graph()
        import networkx as nx
        bridges = {frozenset(e) for e in nx.bridges(g)}
        for b in sorted(bridges, key=sorted):
            if m.bonds[b] == 1 and not any(m.atoms[i]['aromatic'] for i in b) and R.chance(0.4):
                slash[b] = (min(b), R.choice([1, -1]))
    tokens = []
    info = {}
    text, pos_of = molgen.render_fragment(R, m, list(range(n)), descs, molgen.style_draw(R), slash=slash or None,
                                          annot=annot or None, info=info, tokens=tokens)
    exp = expectation(tokens, pos_of, annot_attrs)
    feats = {'smiles', 'mol:' + cname} | {k for k, v in info.items() if v}
    return text, exp, feats, tokens


def render_coarse(R, chain, tokens, counter, p_desc):
    """like gram.render_chain with descriptors inserted; tokens as in molgen.render_fragment"""
    for nd in chain:
        u = counter[0]
        counter[0] += 1
        tok = '[#%s%s]' % (nd.name, nd.annot)
        descs = [rand_desc(R) for _ in range(R.choice([1, 1, 2, 3]))] if R.chance(p_desc) else []
        lead = []
        if u == 0 and descs and R.chance(0.5):
            k = R.randint(1, len(descs))
            lead, descs = descs[:k], descs[k:]
        for d in lead:
            tokens.append(('desc', (d[1:] + d[0]) if d[0] != '[' else d, (u, d)))
        tokens.append(('atom', tok, (u, '[#%s]' % nd.name)))
        before, after, late = [], [], []
        for d in descs:
            r = R.random()
            if r < 0.4:
                before.append(d)
            elif r < 0.8 or not nd.branches:
                after.append(d)
            else:
                late.append(d)
        tokens.extend(('desc', d, (u, d)) for d in before)
        for (o, rid, text) in nd.rings:
            tokens.append(('ring', gram.sym(o) + text, None))
        tokens.extend(('desc', d, (u, d)) for d in after)
        for k, (o, sub, _m, _b) in enumerate(nd.branches):
            if o is not None:
                tokens.append(('bond', gram.sym(o), None))
            tokens.append(('open', '(', None))
            render_coarse(R, sub, tokens, counter, p_desc)
            tokens.append(('close', ')', None))
            if late and k == len(nd.branches) - 1:
                tokens.extend(('desc', d, (u, d)) for d in late)
                late = []
        if nd.nxt is not None:
            tokens.append(('bond', gram.sym(nd.nxt), None))


def gen_coarse(R, tier):
    ast = gram.gen_ast(R, names=('A', 'B', 'SC1', 'TC5'), max_nodes=R.choice([3, 6, 10]), min_nodes=1,
                       p_branch=0.3, p_ring=0.25, p_sym=0.3, max_depth=3)
    try:
        gram.interpret(ast)
    except gram.Invalid:
        return None
    annot_attrs = {}
    if R.chance(0.4):
        for i, nd in enumerate(gram.all_nodes(ast)):
            if R.chance(0.4):
                nd.annot, given = gram.gen_annotation(R, gram.FRAG_RESERVED)
                annot_attrs[i] = given
    tokens = []
    render_coarse(R, ast, tokens, [0], R.choice([0.2, 0.5, 0.8]))
    if not any(t[0] == 'desc' for t in tokens):
        first = [i for i, t in enumerate(tokens) if t[0] == 'atom'][0]
        tokens.insert(first + 1, ('desc', '[$]', (0, '[$]')))
    pos_of = {i: i for i in range(len(list(gram.all_nodes(ast))))}
    text = ''.join(t[1] for t in tokens)
    exp = expectation(tokens, pos_of, annot_attrs)
    return text, exp, {'coarse'} | ({'coarse:' + f for f in gram.features(ast) if f in ('ring', 'branch', 'close_close')}), tokens


def make_case(text, exp, feats, tokens):
    kinds = [t[0] for t in tokens]
    di = [i for i, k in enumerate(kinds) if k == 'desc']
    inner = any(0 < i < len(kinds) - 1 for i in di)
    if inner:
        feats.add('inner_descriptor')
    per_atom = defaultdict(int)
    for t in tokens:
        if t[0] == 'desc':
            per_atom[t[2][0]] += 1
            if t[2][1][0] != '[':
                feats.add('desc_with_symbol')
            if t[2][1].startswith('.'):
                feats.add('desc_order0')
    if per_atom and max(per_atom.values()) >= 2:
        feats.add('several_per_atom')
    if exp['ez']:
        feats.add('slash')
    if any(len(v) > 1 for v in exp['attrs'].values()):
        feats.add('annotation')
    return dict(input=text, expect=exp, features=sorted(feats), inner=inner)


def gen_multiplied(R):
    """flat coarse fragment with node multipliers; descriptors are expected on the graph node of the
    atom they are written after (checked through read_fragments)"""
    n = R.randint(2, 5)
    text = ''
    bonding = {}
    idx = 0
    for k in range(n):
        mult = R.choice([None, 2, 3]) if k < n - 1 or True else None
        text += '[#%s]' % R.choice(['A', 'B', 'C'])
        if mult:
            text += '|%d' % mult
        last = idx + (mult or 1) - 1
        if R.chance(0.5):
            d = rand_desc(R, 0.0)
            text += d
            bonding.setdefault(str(last), []).append(stored(d))
        idx = last + 1
    if not bonding:
        text += '[$]'
        bonding[str(idx - 1)] = ['$1']
    if '|' not in text:
        return None
    return dict(input=text, mode='graph', expect=dict(bonding=bonding, n=idx),
                features=['coarse', 'multiplier_in_fragment'], inner=True)


def gen(R, tier):
    if R.chance(0.04):
        return gen_multiplied(R)
    if R.chance(0.3):
        r = gen_coarse(R, tier)
    else:
        r = gen_smiles(R, tier)
    if r is None:
        return None
    return make_case(*r)


SMALL_TEXTS = [
    [('atom', 'C', None), ('atom', 'C', None)],
    [('atom', 'C', None), ('ring', '1', None), ('atom', 'C', None), ('atom', 'C', None), ('ring', '1', None)],
    [('atom', 'C', None), ('ring', '=1', None), ('atom', 'C', None), ('atom', 'C', None), ('atom', 'C', None), ('atom', 'C', None), ('ring', '1', None)],
    [('atom', 'C', None), ('ring', '-%12', None), ('atom', 'O', None), ('atom', 'C', None), ('ring', '%12', None)],
    [('atom', 'C', None), ('open', '(', None), ('atom', 'Cl', None), ('close', ')', None), ('bond', '=', None), ('atom', 'O', None)],
    [('atom', '[NH3+]', None), ('atom', 'C', None), ('open', '(', None), ('bond', '=', None), ('atom', 'O', None), ('close', ')', None), ('atom', '[O-]', None)],
    [('atom', 'c', None), ('ring', '1', None), ('atom', 'c', None), ('atom', 'c', None), ('atom', 'c', None), ('atom', 'c', None), ('atom', 'c', None), ('ring', '1', None), ('atom', 'Br', None)],
    [('atom', 'C', None), ('atom', 'S', None), ('atom', 'c', None), ('ring', '1', None), ('atom', 'c', None), ('atom', 'c', None), ('atom', 'c', None), ('atom', 'c', None), ('atom', 'c', None), ('ring', '1', None)],
    [('atom', 'C', None), ('atom', 'n', None), ('ring', '1', None), ('atom', 'c', None), ('atom', 'c', None), ('atom', 'c', None), ('atom', 'c', None), ('ring', '1', None)],
    [('atom', 'N', None), ('atom', 'C', None), ('atom', 'o', None), ('ring', '1', None), ('atom', 'c', None), ('atom', 'c', None), ('atom', 'c', None), ('atom', 'c', None), ('ring', '1', None)],
    [('atom', '[#A]', None), ('atom', '[#B]', None), ('open', '(', None), ('atom', '[#C]', None), ('close', ')', None), ('atom', '[#D]', None)],
    [('atom', '[#A]', None), ('ring', '=1', None), ('atom', '[#B]', None), ('bond', '.', None), ('atom', '[#C]', None), ('ring', '1', None)],
    [('atom', '[#A]', None), ('ring', '%123', None), ('atom', '[#B]', None), ('atom', '[#C]', None), ('ring', '%123', None)],
]


def enumerate_cases(tier):
    forms = [s + '[' + k + l + ']' for s in ('', '-', '=', '#', '$', '.') for k in '$><!' for l in ('', 'a', 'A1')]
    if tier != 'thorough':
        forms = [s + '[' + k + l + ']' for s in ('', '=', '.', '#') for k in '$>' for l in ('', 'A1')]
    for base in SMALL_TEXTS:
        # atom index per token
        atom_idx = []
        n = -1
        for t in base:
            if t[0] == 'atom':
                n += 1
            atom_idx.append(n)
        # insertion slots: after token i (atom, ring or close) belonging to atom u; or leading
        slots = [('lead', -1, 0)]
        anchors = []
        for i, t in enumerate(base):
            if t[0] == 'atom':
                slots.append(('after', i, atom_idx[i]))
                last_atom = i
            elif t[0] == 'ring':
                slots.append(('after', i, atom_idx[i]))
            elif t[0] == 'open':
                anchors.append(atom_idx[i])
            elif t[0] == 'close':
                u = anchors.pop()
                slots.append(('after', i, u))
        for (how, i, u), d in itertools.product(slots, forms):
            toks = []
            for j, t in enumerate(base):
                if how == 'lead' and j == 0:
                    toks.append(('desc', (d[1:] + d[0]) if d[0] != '[' else d, (0, d)))
                kind, text, _ = t
                if kind == 'atom':
                    toks.append((kind, text, (atom_idx[j], text)))
                else:
                    toks.append(t)
                if how == 'after' and j == i:
                    toks.append(('desc', d, (u, d)))
            # a descriptor with a symbol directly after a ring marker that has no atom in between is fine;
            # skip forms where the symbol would merge with a following ring token ('C=[$]1' is generated, ok)
            pos_of = {k: k for k in range(n + 1)}
            exp = expectation(toks, pos_of, {})
            text = ''.join(t[1] for t in toks)
            yield make_case(text, exp, {'enumerated'}, toks)


def nontrivial(case):
    return case['inner']


def oracle(case):
    from cgsmiles.read_fragments import strip_bonding_descriptors
    exp = case['expect']
    if case.get('mode') == 'graph':
        from cgsmiles import read_fragments
        g = sut(read_fragments, '{#X=%s}' % case['input'], all_atom=False)['X']
        expect(len(g) == exp['n'], 'strip:graph-nodes', lambda: '%d nodes, expected %d' % (len(g), exp['n']))
        got = {str(n): list(b) for n, b in g.nodes(data='bonding') if b}
        expect(got == exp['bonding'], 'strip:descriptors',
               lambda: 'descriptors on graph nodes %r, expected %r' % (got, exp['bonding']))
        return
    smile, bonding, ez, attrs = sut(strip_bonding_descriptors, case['input'])
    expect(smile == exp['clean'], 'strip:clean-text', lambda: 'returned %r, expected %r' % (smile, exp['clean']))
    got_b = {str(k): list(v) for k, v in dict(bonding).items() if v}
    expect(got_b == exp['bonding'], 'strip:descriptors',
           lambda: 'descriptor map %r, expected %r' % (got_b, exp['bonding']))
    got_ez = {str(k): v for k, v in dict(ez).items()}
    expect(got_ez == exp['ez'], 'strip:slash-marks', lambda: 'slash map %r, expected %r' % (got_ez, exp['ez']))
    got_a = {str(k): dict(v) for k, v in dict(attrs).items()}
    expect(got_a == exp['attrs'], 'strip:annotations',
           lambda: 'annotation map %r, expected %r' % (got_a, exp['attrs']))
    for k, v in got_a.items():
        expect(isinstance(v.get('weight'), float), 'strip:annotation-type', lambda: 'weight of atom %s is %r' % (k, v.get('weight')))
    # what a caller did to an earlier result (the resolver consumes descriptors from such lists) must not
    # show up when the same text is read again
    for lst in dict(bonding).values():
        del lst[:]
    for d in dict(attrs).values():
        d.clear()
    dict.clear(ez)
    smile2, bonding2, ez2, attrs2 = sut(strip_bonding_descriptors, case['input'])
    again = (smile2, {str(k): list(v) for k, v in dict(bonding2).items() if v}, {str(k): v for k, v in dict(ez2).items()},
             {str(k): dict(v) for k, v in dict(attrs2).items()})
    expect(again == (exp['clean'], exp['bonding'], exp['ez'], exp['attrs']), 'strip:second-read-differs',
           lambda: 'after the first result was emptied by the caller a second read returns %r' % (again,))
