"""C17 - the sampler honours target weight, reactivities, terminals and seed."""
import sys
from .. import env  # noqa
from .. import sampler, invariants, molgen
from ..runner import sut, expect, Fail, SutError, note, hypothesis_run
from . import c16
from .c12 import hash_seed_run, _Sink

ID = 'C17'
RULE = ('[sampler fragments contain bracket atoms without H count, zero-order descriptors, targets a hair above a reachable mass sum; fragment-mass tolerance 0.006 u per atom] '
        'cases: the sampler configurations of C16 (reactivity tables with explicit zeros, conditional tables, '
        'terminal sets, targets <=0..400, seeds, coarse masses or element-derived masses). Oracle on the '
        'reconstructed growth history: summed mass of the added fragments >= target and < target without the last '
        '(no growth iff target <= 0); element-derived fragment masses = sum of atomic masses incl. implicit '
        'hydrogens (independent table, 0.02 u per atom); no growth step uses a site whose listed reactivity is 0 '
        '(in a state where some open descriptor has positive reactivity) nor a partner whose listed conditional '
        'reactivity is 0; after a terminal partner the site atom keeps no descriptor, after a non-terminal step '
        'the site atom keeps no terminal descriptor, and the final descriptor lists equal what the history leaves '
        'open; the same analysis for a second sample() on the same sampler object. Reproducibility: construct(seed)+sample twice gives equal dumps; a Hypothesis stateful machine '
        'interleaves constructions of other samplers, resolver calls and foreign random draws between '
        'construct/sample pairs; the same batch runs in fresh interpreters under different PYTHONHASHSEED. '
        'non-trivial = >=1 growth step with a zero in a table or a terminal set; distinct = configuration')
ASSUMPTIONS = ['only explicitly listed zero reactivities are asserted (behaviour for unlisted descriptors is unspecified)',
               'a sampler exception is accepted only in a state where a dead end was reachable']


def budget(tier):
    if tier == 'thorough':
        return dict(examples=5000, shards=16, procs=16)
    return dict(examples=1200, shards=4, procs=4)


gen = c16.gen
key = c16.key
sample_repr = c16.sample_repr


def nontrivial(case):
    f = set(case['features'])
    return case.get('_steps', 0) >= 1 and bool(f & {'zero_reactivity', 'zero_conditional', 'terminal_set'})


def oracle(case):
    if 'history' in case:
        replay_history(case['history'])
        return
    if 'hash_seeds' in case:
        outs = hash_seed_run([case], case['hash_seeds'], worker='sample')
        vals = {k: v[0] for k, v in outs.items()}
        expect(len(set(vals.values())) == 1, 'sampler:hash-seed', lambda: 'samples differ between hash seeds: %r' % vals)
        return
    smp, g, err = sampler.run_cfg(case)
    if case['all_atom'] and smp is not None:
        for name, want in case['expected_mass'].items():
            got = smp.fragment_masses.get(name)
            natoms = len(smp.fragment_dict[name])
            tol = 0.006 * (natoms * 4 + 1)      # rounding of the atomic mass tables, far below one hydrogen
            expect(got is not None and abs(got - want) <= tol, 'sampler:fragment-mass',
                   lambda: 'mass of %s is %r, expected %.3f (sum of atomic masses incl. hydrogens)' % (name, got, want))
    if smp is not None and case['masses'] is not None:
        expect(dict(smp.fragment_masses) == dict(case['masses']), 'sampler:fragment-mass',
               lambda: 'given masses %r, sampler uses %r' % (case['masses'], dict(smp.fragment_masses)))
    if g is None:
        e, open_bonds = err
        if e.type in sampler.DEAD_END and sampler.dead_end_possible(case, smp, open_bonds):
            note('dead_end_rejected')
            return
        raise e
    info = sampler.analyse(case, smp, g, {'weights'})
    case['_steps'] = info['steps']
    note('samples_analysed')
    # same seed, same molecule
    d1 = invariants.dump(g)
    smp2, g2, err2 = sampler.run_cfg(case)
    expect(g2 is not None and invariants.dump(g2) == d1, 'sampler:not-reproducible',
           'constructing the sampler with the same seed and sampling again gives a different molecule')


    # the stopping rule (and the table rules) hold for every call: a second molecule from the SAME sampler object
    kw = dict(start_fragment=case['start']) if case.get('start') else {}
    try:
        g3 = sut(smp.sample, case['target'], **kw)
    except SutError as e:
        if e.type in sampler.DEAD_END:
            note('second_sample_dead_end')
            return
        raise
    note('second_sample_on_same_sampler_analysed')
    try:
        sampler.analyse(case, smp, g3, {'weights'})
    except Fail as f:
        f.detail = 'second sample() on the same sampler object: ' + f.detail
        raise


# ----------------------------------------------------------------------------------------
# histories
# ----------------------------------------------------------------------------------------
class HFail(Exception):
    pass


def digest(cfg):
    return c16.sample_digest(cfg)


def replay_history(log):
    import random as _random
    from cgsmiles import MoleculeResolver
    ref = {}
    for entry in log:
        op = entry[0]
        if op == 'sample':
            cfg = entry[1]
            d = digest(cfg)
            k = repr(sorted((a, repr(b)) for a, b in cfg.items() if a not in ('features', '_steps')))
            if k in ref:
                expect(ref[k] == d, 'sampler:history-dependent',
                       lambda: 'construct(seed=%r)+sample gives a different molecule after: %r' % (cfg['seed'], [e[0] for e in log]))
            else:
                ref[k] = d
        elif op == 'construct_other':
            try:
                sut(sampler.make_sampler, entry[1])
            except SutError:
                pass
        elif op == 'foreign_random':
            for _ in range(entry[1]):
                _random.random()
        elif op == 'reseed':
            _random.seed(entry[1])
        elif op == 'resolve':
            try:
                sut(lambda: MoleculeResolver.from_string(entry[1]).resolve_all())
            except SutError:
                pass


def extra(tier, seed, col):
    me = sys.modules[__name__]
    import hypothesis
    from hypothesis import settings, strategies as st, HealthCheck, Phase
    from hypothesis.stateful import RuleBasedStateMachine, rule, precondition, run_state_machine_as_test
    from ..draw import Draw
    # processes
    sink = _Sink()
    hypothesis_run(me, tier, seed * 1000 + 992, 200 if tier == 'quick' else 2000, sink)
    cases = sink.cases
    seeds = ['0', '1', str(1000 + seed)] if tier == 'quick' else ['0', '1', '2', '17', str(1000 + seed), str(77000 + seed)]
    outs = {}
    for i, hs in enumerate(seeds):
        outs['%s#%d' % (hs, i)] = hash_seed_run(cases, [hs], worker='sample')[hs]
    keys = list(outs)
    compared = 0
    for i, c in enumerate(cases):
        for k in keys[1:]:
            compared += 1
            if outs[k][i] != outs[keys[0]][i]:
                col.record_failure('sampler:hash-seed', 'samples differ between interpreter runs %s and %s' % (keys[0], k),
                                   dict(c, hash_seeds=['0', '1', '2']), 'hash-seed')
                break
    # histories
    stats = dict(histories=0, steps=0, pairs_compared=0, rules={})
    failures = []

    class M(RuleBasedStateMachine):
        def __init__(self):
            super().__init__()
            self.log = []
            self.ref = {}
            self.cfgs = []
            stats['histories'] += 1

        def _count(self, name):
            stats['rules'][name] = stats['rules'].get(name, 0) + 1
            stats['steps'] += 1

        @precondition(lambda self: len(self.cfgs) < 3)
        @rule(data=st.data())
        def new_cfg(self, data):
            cfg = sampler.gen_cfg(Draw(data), 'quick')
            if cfg is not None:
                self._count('new_cfg')
                self.cfgs.append(cfg)
                self.log.append(['sample', cfg])
                self.ref[id(cfg)] = digest(cfg)

        @precondition(lambda self: self.cfgs)
        @rule(i=st.integers(0, 20))
        def sample(self, i):
            cfg = self.cfgs[i % len(self.cfgs)]
            self._count('sample')
            self.log.append(['sample', cfg])
            d = digest(cfg)
            k = id(cfg)
            if k in self.ref:
                stats['pairs_compared'] += 1
                if self.ref[k] != d:
                    failures.append(list(self.log))
                    raise AssertionError('history dependent')
            else:
                self.ref[k] = d

        @precondition(lambda self: self.cfgs)
        @rule(i=st.integers(0, 20))
        def construct_other(self, i):
            cfg = self.cfgs[i % len(self.cfgs)]
            self._count('construct_other')
            self.log.append(['construct_other', cfg])
            try:
                sut(sampler.make_sampler, cfg)
            except SutError:
                pass

        @rule(n=st.integers(1, 5))
        def foreign_random(self, n):
            import random as _random
            self._count('foreign_random')
            self.log.append(['foreign_random', n])
            for _ in range(n):
                _random.random()

        @rule(sd=st.integers(0, 100))
        def reseed(self, sd):
            import random as _random
            self._count('reseed')
            self.log.append(['reseed', sd])
            _random.seed(sd)

        @rule(s=st.sampled_from(['{[#A]|3}.{#A=[$]CC[$]}', '{[#A][#B]}.{#A=[>]CO,#B=[<]N}']))
        def resolve(self, s):
            from cgsmiles import MoleculeResolver
            self._count('resolve')
            self.log.append(['resolve', s])
            try:
                sut(lambda: MoleculeResolver.from_string(s).resolve_all())
            except SutError:
                pass

    nh, steps = (40, 15) if tier == 'quick' else (1000, 25)
    try:
        run_state_machine_as_test(hypothesis.seed(seed * 1000 + 556)(M), settings=settings(
            max_examples=nh, stateful_step_count=steps, database=None, deadline=None,
            suppress_health_check=list(HealthCheck), phases=[Phase.generate, Phase.shrink],
            report_multiple_bugs=False, print_blob=False))
    except AssertionError:
        pass
    except BaseException as e:
        from ..runner import is_flaky
        if not (failures and is_flaky(e)):
            raise
    if failures:
        log = failures[-1]
        col.record_failure('sampler:history-dependent', 'a construct(seed)+sample pair gives a different molecule depending on what ran before',
                           dict(input='history of %d steps' % len(log), history=log, features=['history']), 'history')
    return dict(hash_seed_inputs=len(cases), hash_seed_runs=keys, hash_seed_comparisons=compared, histories=stats)
