"""C11 - virtual nodes and zero-order edges are inert."""
import networkx as nx
from .. import env  # noqa
from .. import molgen, invariants
from ..runner import sut, expect, Fail, SutError
from .c01 import check_molecule, resolve

ID = 'C11'
RULE = ('cases: a resolvable C01 string (molecule model x partition x rendering) whose base graph gets 1-3 '
        'fragment-less (virtual) nodes attached only by order-0 edges to random real nodes (and to each other), '
        'and 0-2 order-0 edges between non-adjacent real nodes; the decorated base graph is written by the own '
        'writer with a random root (virtual node first, in the middle, in a branch, last; order-0 chain edges, '
        'branch edges and ring bonds) and also handed to from_graph with the nodes inserted in random order (30 %: '
        'plus a fragment-less node without any edge). '
        'Oracle (metamorphic): the fine graph is isomorphic to the model and to the resolution of the undecorated '
        'string; every real coarse node has exactly the atoms of its own fragment (fragname, count, graph '
        'attribute; C02 mapping invariant), virtual nodes have none; raising one virtual edge to order 1 must '
        'raise SyntaxError. non-trivial = a virtual node that is not the last node of the string, or >=2 virtual '
        'nodes; distinct = string')
ASSUMPTIONS = ['virtual nodes use a fragment name that is not defined (V, W)']


def budget(tier):
    if tier == 'thorough':
        return dict(examples=4000, shards=16, procs=16)
    return dict(examples=600, shards=4, procs=4)


def gen_levels(R, tier):
    """virtual nodes and order-0 edges inside the fragments of intermediate levels"""
    from .. import resgen
    c = resgen.gen_cut_string(R, tier, min_frags=2, with_levels=R.choice([1, 2]), virtual_in_levels=0.5)
    if c is None or 'virtual_node_inside_a_fragment' not in c['features']:
        return None
    return dict(input=c['input'], original=c['two_level'], model=c['model'], multilevel=True, nontrivial=True, drop=R.randint(0, 20),
                features=sorted(set(c['features']) | {'multi_level'}))


def gen(R, tier):
    if R.chance(0.2):
        return gen_levels(R, tier)
    m, cname = molgen.gen_mol_class(R, big=False)
    owner = molgen.partition(R, m, max_frags=R.choice([1, 2, 3, 5]), min_frags=1)
    feats = {'mol:' + cname}
    s, info = molgen.build_cgsmiles(R, m, owner, style=molgen.style_draw(R), feats=feats)
    if s is None:
        return None
    base = info['base'].copy()
    names = list(info['names'])
    real = list(base.nodes)
    nv = R.choice([1, 1, 2, 3])
    virt = []
    for k in range(nv):
        v = len(names)
        names.append(R.choice(['V', 'W']))
        base.add_node(v)
        targets = R.sample(real + virt, R.choice([1, 1, 2]) if len(real + virt) >= 2 else 1)
        for t in targets:
            base.add_edge(v, t, order=0)
        virt.append(v)
    nzero = 0
    for _ in range(R.choice([0, 0, 1, 2])):
        if len(real) < 2:
            break
        a, b = R.sample(real, 2)
        if not base.has_edge(a, b):
            base.add_edge(a, b, order=0)
            nzero += 1
    text = molgen.write_base(R, base, names)
    full = text + '.' + info['frag_block']
    # position of the virtual nodes in the string
    import re
    seq = re.findall(r'\[#(\w+)\]', text)
    vpos = [i for i, nm in enumerate(seq) if nm in ('V', 'W')]
    if vpos and vpos[0] == 0:
        feats.add('virtual_first')
    if any(0 < p < len(seq) - 1 for p in vpos):
        feats.add('virtual_middle')
    if vpos and vpos[-1] == len(seq) - 1:
        feats.add('virtual_last')
    feats.add('virtual:%d' % nv)
    if nzero:
        feats.add('zero_edge_between_real')
    if any(base.degree(v) > 1 for v in virt):
        feats.add('virtual_in_ring_or_bridge')
    # a faulty twin: one virtual edge raised to order 1
    b2 = base.copy()
    v = R.choice(virt)
    t = R.choice(sorted(b2[v]))
    b2.edges[v, t]['order'] = R.choice([1, 1, 2])
    bad = molgen.write_base(R, b2, names) + '.' + info['frag_block']
    order = list(base.nodes)
    R.shuffle(order)
    nontriv = nv >= 2 or any(p < len(seq) - 1 for p in vpos)
    graph_nodes = [[n, names[n]] for n in order]
    if R.chance(0.3):
        # (only expressible through from_graph) a fragment-less node without any edge
        graph_nodes.insert(R.randint(0, len(graph_nodes)), [len(names) + 5, R.choice(['V', 'W'])])
        feats.add('isolated_virtual_node_in_graph')
    return dict(input=full, original=s, bad=bad, model=m.to_json(), features=sorted(feats), nontrivial=nontriv,
                frag_block=info['frag_block'], names=names, virtual=virt,
                base_nodes=graph_nodes,
                base_edges=[[a, b, o] for a, b, o in base.edges(data='order')])


def nontrivial(case):
    return case['nontrivial']


def check_membership(cg, fine, ref_counts, templates, what):
    invariants.check_mapping(cg, fine, templates, True, what)
    members = invariants.members_of(cg, fine)
    for k, d in cg.nodes(data=True):
        name = d.get('fragname')
        if name in ('V', 'W'):
            continue
        got = sorted(fine.nodes[n].get('element') for n in members[k])
        expect(got == ref_counts[name], 'virtual:membership',
               lambda: '%scoarse node %r (%s) holds atoms %r, without virtual nodes it holds %r' % (what, k, name, got, ref_counts[name]))


def oracle(case):
    from cgsmiles import MoleculeResolver
    model_g = molgen.model_graph(case['model'])
    if case.get('multilevel'):
        r = sut(lambda: MoleculeResolver.from_string(case['input']))
        fine = None
        for lv in range(r.resolutions):
            cg, fine = sut(r.resolve)
            invariants.check_mapping(cg, fine, r.fragment_dicts[lv], lv == r.resolutions - 1, 'level %d: ' % lv)
            invariants.check_bonds(cg, fine, r.fragment_dicts[lv], True, lv == r.resolutions - 1, True, 'level %d: ' % lv)
        check_molecule(fine, model_g, 'multi-level string with virtual nodes inside fragments')
        # a fragment-less node of a LOWER level that is bonded through descriptors is rejected as well
        import re
        blocks = re.findall(r"\{[^\}]+\}", case['input'])
        defs = blocks[-1][1:-1].split(',')
        if len(defs) >= 2:
            k = case.get('drop', 0) % len(defs)
            bad = '.'.join(blocks[:-1] + ['{' + ','.join(d for i, d in enumerate(defs) if i != k) + '}'])
            try:
                sut(resolve, bad)
            except SutError as e:
                expect(e.type == 'SyntaxError', 'virtual:wrong-exception', lambda: 'fragment-less bonded node at a lower level: %s for %s' % (e.sig, bad))
            else:
                raise Fail('virtual:bonded-virtual-node-accepted', 'no error for %s' % bad)
        return
    cg0, fine0 = sut(resolve, case['original'])
    ref_counts = {}
    m0 = invariants.members_of(cg0, fine0)
    for k, d in cg0.nodes(data=True):
        ref_counts[d['fragname']] = sorted(fine0.nodes[n].get('element') for n in m0[k])
    r = sut(lambda: MoleculeResolver.from_string(case['input']))
    cg, fine = sut(r.resolve_all)
    check_molecule(fine, model_g, 'with virtual nodes')
    check_membership(cg, fine, ref_counts, r.fragment_dicts[0], 'from_string: ')
    meta = nx.Graph()
    for n, name in case['base_nodes']:
        meta.add_node(n, fragname=name)
    for a, b, o in case['base_edges']:
        meta.add_edge(a, b, order=o)
    r2 = sut(lambda: MoleculeResolver.from_graph(case['frag_block'], meta))
    cg2, fine2 = sut(r2.resolve_all)
    check_molecule(fine2, model_g, 'from_graph with virtual nodes')
    check_membership(cg2, fine2, ref_counts, r2.fragment_dicts[0], 'from_graph (node order %r): ' % [n for n, _ in case['base_nodes']])
    # the same base-graph object used before with a fragment set that DOES define the virtual names
    meta3 = nx.Graph()
    for n, name in case['base_nodes']:
        meta3.add_node(n, fragname=name)
    for a, b, o in case['base_edges']:
        meta3.add_edge(a, b, order=o)
    defined = case['frag_block'][:-1] + ',#V=[$]O,#W=[$]N}'
    sut(lambda: MoleculeResolver.from_graph(defined, meta3).resolve_all())
    for n in meta3.nodes:
        # the resolver renames fragname/atomname of the graph it was given; hand over the names again
        meta3.nodes[n]['fragname'] = [nm for k, nm in case['base_nodes'] if k == n][0]
    r3 = sut(lambda: MoleculeResolver.from_graph(case['frag_block'], meta3))
    cg3, fine3 = sut(r3.resolve_all)
    check_molecule(fine3, model_g, 'from_graph on a base graph object that was resolved before')
    check_membership(cg3, fine3, ref_counts, r3.fragment_dicts[0], 'from_graph on a reused base graph object: ')
    try:
        sut(resolve, case['bad'])
    except SutError as e:
        expect(e.type == 'SyntaxError', 'virtual:wrong-exception', lambda: 'fragment-less node with a bonded edge: %s' % e.sig)
    else:
        raise Fail('virtual:bonded-virtual-node-accepted', 'no error for %s' % case['bad'])
