"""C09 - every atom of an atomistic result has a complete, standard valence."""
from .. import env  # noqa
from .. import resgen, invariants, molgen
from ..runner import sut, expect
from .c02 import run_steps

ID = 'C09'
RULE = ('cases: all-atom outputs of the resolver for (i) C01 strings (charged atoms, aromatic cuts), (ii) '
        'multi-level strings, (iii) ambiguous fragment sets with surplus descriptors (polymers via multipliers, '
        'rings of identical units, branched grafts, shared atoms), (iv) fragments with explicitly written [H] '
        'atoms and annotated hydrogens, (v) strings with free polyatomic ions ([NH4+], [OH-], [OH3+] ...) as own '
        'fragments on order-0 edges, (vi) two-atom beads in aromatic shorthand ([$]cc[$]) alone, in chains and in rings; '
        'an order-1.5 bond must lie on a ring; sampler outputs are covered by C16. Oracle (output only, independent '
        'valence table C4 N3,5 O2 S2,4,6 P3,5 halogens 1, iso-electronic shift for charges, aromatic atom = sigma '
        'bonds + 1): heavy bond sum s; if some usual valence v >= s exists the atom carries exactly min(v)-s '
        'hydrogens; every H has exactly one neighbour, bond order 1, and copies that atom\'s fragid, fragname and '
        'weight (unless written explicitly); explicitly written hydrogens are present. non-trivial = an unused '
        'descriptor (ambiguous set), a charged atom, an aromatic cut or explicit hydrogens; distinct = string')
ASSUMPTIONS = ['ambiguous sets use non-aromatic fragments (an aromatic fragment that cannot be kekulised is legitimately rejected)']


def budget(tier):
    if tier == 'thorough':
        return dict(examples=6000, shards=16, procs=16)
    return dict(examples=700, shards=4, procs=4)


def gen_explicit_h(R, tier):
    """fragments with explicit hydrogens: [H] atoms written in the SMILES, some annotated"""
    n = R.randint(1, 4)
    base = '{[#A]|%d}' % n if R.chance(0.5) else '{[#T][#A]|%d[#T]}' % n
    heavy = R.choice(['C', 'N', 'O', 'C'])
    nh_max = {'C': 2, 'N': 1, 'O': 0}[heavy]
    k = R.randint(0, nh_max)
    hs = ''
    weights = []
    for i in range(k):
        if R.chance(0.5):
            w = R.choice(['0.1', '0.2', '0.5', '0'])
            hs += '([H;%s])' % w
            weights.append(float(w))
        else:
            hs += '([H])'
            weights.append(1.0)
    wa = R.choice([None, '0.5', '2', '0'])
    atom = '[%s;%s]' % (heavy, wa) if wa else heavy
    frag = '[$]%s%s[$]' % (atom, hs)
    if k >= 1 and R.chance(0.35):
        # the first explicitly written hydrogen is the first atom of the fragment
        first = hs[1:hs.index(')')]
        frag = '%s%s%s[$][$]' % (first, atom, hs[hs.index(')') + 1:])
    term = R.choice(['[$][H]', '[$]H', '[$]O', '[$]C'])
    s = base + '.{#A=%s,#T=%s}' % (frag, term)
    return dict(input=s, last_all_atom=True, legacy=True, kind='explicit_h', dedicated=False, nlevels=1,
                features=['explicit_h'], explicit=dict(count=k * n, copies=n, weights=weights))


def gen_h_caps(R, tier):
    """explicit single-hydrogen fragments bonded to aromatic / aliphatic atoms, listed before or after them"""
    core = R.choice(['[$]c1ccccc1', '[$]c1ccc([$])cc1', '[$]c1ccccc1[$]', 'c1cc([$])cc([$])c1C', '[$]c1ccncc1', '[$]CC[$]', '[$]N[$]'])
    ncap = core.count('[$]')
    hname = R.choice(['[$][H]', '[$]H'])
    caps = ['[#H]'] * ncap
    pre = R.randint(0, ncap)
    base = '{' + ''.join(caps[:pre]) + '[#A]' + ''.join('([#H])' for _ in caps[pre:]) + '}'
    if pre >= 2:
        # several caps in front: the first ones as branches of the core node
        base = '{[#H][#A]' + ''.join('([#H])' for _ in range(ncap - 1)) + '}'
    s = base + '.{#A=%s,#H=%s}' % (core, hname)
    return dict(input=s, last_all_atom=True, legacy=True, kind='h_caps', dedicated=False, nlevels=1,
                features=['explicit_h', 'hydrogen_fragment', 'h_cap_on_aromatic' if 'c1' in core else 'h_cap_on_aliphatic'],
                ncaps=ncap)


def gen_weighted(R, tier):
    """a C01 string whose atoms carry weight annotations (incl. weight 0): hydrogens must copy them"""
    m, cname = molgen.gen_mol_class(R)
    owner = molgen.partition(R, m, max_frags=R.choice([1, 2, 3]), min_frags=1)
    ann = {i: R.choice(['0', '0.5', '2', 'w=0', 'w=0.25', '0.0']) for i in range(len(m.atoms)) if R.chance(0.4)}
    if not ann:
        ann = {0: '0'}
    feats = {'mol:' + cname, 'weights'}
    s, info = molgen.build_cgsmiles(R, m, owner, style=molgen.style_draw(R), feats=feats, annot=ann)
    if s is None:
        return None
    if any(v in ('0', 'w=0', '0.0') for v in ann.values()):
        feats.add('weight_zero')
    return dict(input=s, last_all_atom=True, legacy=True, kind='weighted', dedicated=True, nlevels=1, features=sorted(feats))


IONS = ['[NH4+]', '[OH-]', '[OH3+]', '[SH-]', '[Cl-]', '[NH4+].[Cl-]', '[OH3+].[OH-]', 'O.[NH4+]']


def gen_ions(R, tier):
    """a C01 string plus 1-2 free (polyatomic) ions: own fragments attached to the base graph by order-0
    edges only, some of them two species inside one fragment (dot-separated)"""
    case = resgen.gen_cut_string(R, tier)
    if case is None:
        return None
    s = case['input']
    head, tail = s.split('}.{', 1)
    extra = []
    for k in range(R.choice([1, 1, 2])):
        head += '.[#I%d]' % k
        extra.append('#I%d=%s' % (k, R.choice(IONS)))
    tail = tail[:-1] + ',' + ','.join(extra) + '}' if R.chance(0.5) else ','.join(extra) + ',' + tail
    return dict(input=head + '}.{' + tail, last_all_atom=True, legacy=True, kind='ions', dedicated=False, nlevels=1,
                features=sorted(set(case['features']) | {'free_polyatomic_ion'}))


BEADS = ['[$]cc[$]', '[$]cc[$]', '[$]c(C)c[$]', '[$]cn[$]', '[$]c(O)c[$]', '[$]cc([$])']


def gen_aromatic_beads(R, tier):
    """two-atom beads written in aromatic shorthand (the documented coarse mapping of benzene: three [$]cc[$]
    beads in a ring): alone, as open chains (conjugated, not aromatic), as rings of 3-4 beads, next to another molecule"""
    n = R.choice([1, 1, 2, 3, 3, 4])
    names = ['A', 'B']
    beads = {nm: R.choice(BEADS) for nm in names}
    seq = [R.choice(names) for _ in range(n)]
    ring = n >= 3 and R.chance(0.6)
    body = ''.join('[#%s]' % x for x in seq)
    if ring:
        body = '[#%s]1' % seq[0] + ''.join('[#%s]' % x for x in seq[1:]) + '1'
    extra = ''
    if R.chance(0.4):
        body += '.[#M]'
        extra = ',#M=' + R.choice(['CCO', 'O', '[Na+]', 'c1ccccc1', '[$]cc[$]'])
    used = sorted(set(seq))
    s = '{%s}.{%s%s}' % (body, ','.join('#%s=%s' % (nm, beads[nm]) for nm in used), extra)
    return dict(input=s, last_all_atom=True, legacy=True, kind='aromatic_beads', dedicated=False, nlevels=1,
                features=['aromatic_shorthand_beads', 'beads:%d' % n] + (['bead_ring'] if ring else ['bead_chain']))


def gen_sampler(R, tier):
    from .. import sampler
    cfg = sampler.gen_cfg(R, tier, all_atom=True)
    if cfg is None:
        return None
    cfg['kind'] = 'sampler'
    cfg['features'] = sorted(set(cfg['features']) | {'sampler_output'})
    return cfg


def gen(R, tier):
    case = gen_inner(R, tier)
    if case is not None and R.chance(0.1):
        case['pre_mass'] = R.randrange(4)
        case['features'] = sorted(set(case['features']) | {'after_compute_mass_on_plain_molecule'})
    return case


def gen_inner(R, tier):
    r = R.random()
    if r < 0.12:
        return gen_explicit_h(R, tier)
    if r < 0.17:
        return gen_h_caps(R, tier)
    if r < 0.27:
        return gen_weighted(R, tier)
    if r < 0.42:
        return gen_sampler(R, tier)
    if r < 0.47:
        return gen_ions(R, tier)
    if r < 0.51:
        return gen_aromatic_beads(R, tier)
    while True:
        case = resgen.gen_resolvable(R, tier, kinds=('fragset', 'fragset', 'cut', 'cut', 'levels'))
        if case is None or case['last_all_atom']:
            return case
        # coarse fragset: regenerate as all-atom
        return resgen.gen_fragset_string(R, tier, all_atom=True)


def nontrivial(case):
    f = set(case['features'])
    if case['kind'] == 'sampler':
        return case.get('_steps', 0) >= 1
    return case['kind'] in ('fragset', 'explicit_h', 'weighted', 'h_caps', 'ions', 'aromatic_beads') or bool(f & {'charged_at_cut', 'aromatic_cut'})


def key(case):
    if case['kind'] == 'sampler':
        return repr(sorted((k, repr(v)) for k, v in case.items() if k not in ('features', '_steps')))
    return case['input']


PLAIN = ['CCO', 'c1ccccc1N', 'CC(=O)[O-]', 'C']


def oracle(case):
    if case.get('pre_mass') is not None:
        # a public helper used on a plain pysmiles molecule before anything else happens
        import pysmiles
        from cgsmiles.pysmiles_utils import compute_mass
        sut(lambda: compute_mass(pysmiles.read_smiles(PLAIN[case['pre_mass']])))
    if case['kind'] == 'sampler':
        from .. import sampler
        smp, g, err = sampler.run_cfg(case)
        if g is None:
            e, open_bonds = err
            if e.type in sampler.DEAD_END and sampler.dead_end_possible(case, smp, open_bonds):
                return
            raise e
        invariants.check_valence(g, 'sampler output: ')
        case['_steps'] = len({d['fragid'][0] for _, d in g.nodes(data=True)}) - 1
        return
    last = {}

    def step(lv, cg, fine, templates, all_atom):
        if all_atom:
            invariants.check_valence(fine, 'level %d: ' % lv)
            invariants.check_aromatic_bonds_in_rings(fine, 'level %d: ' % lv)
            last['fine'] = fine
    run_steps(case, step)
    if case['kind'] == 'h_caps' and 'fine' in last:
        fine = last['fine']
        caps = [n for n, d in fine.nodes(data=True) if d.get('fragname') == 'H']
        expect(len(caps) == case['ncaps'] and all(fine.nodes[n].get('element') == 'H' and fine.degree(n) == 1 for n in caps),
               'valence:explicit-hydrogen-lost', lambda: 'hydrogen fragments in the result: %r, %d written' % (caps, case['ncaps']))
    if case['kind'] == 'explicit_h' and 'fine' in last:
        fine = last['fine']
        mapped_h = [n for n, d in fine.nodes(data=True) if d.get('element') == 'H' and 'mapping' in d
                    and d['mapping'][0][0] == 'A']
        expect(len(mapped_h) == case['explicit']['count'], 'valence:explicit-hydrogen-lost',
               lambda: '%d explicitly written hydrogens in the result, %d written' % (len(mapped_h), case['explicit']['count']))
        ws = sorted(fine.nodes[n].get('weight', 'missing') for n in mapped_h)
        per_copy = sorted(case['explicit']['weights'])
        ncopies = case['explicit']['copies']
        expect(ws == sorted(per_copy * ncopies), 'valence:explicit-hydrogen-annotation',
               lambda: 'weights of explicit hydrogens %r, expected %r x %d' % (ws, per_copy, ncopies))
