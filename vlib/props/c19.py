"""C19 - 2D layout gives every node a finite position at the requested scale."""
import networkx as nx
from .. import env  # noqa
from .. import molgen
from ..runner import sut, expect, Fail

ID = 'C19'
RULE = ('cases: connected graphs with >=1 edge: paths, stars, cycles, fused rings (ladders), random connected '
        'graphs up to 40 nodes (12 % long chains / ladders / trees of 50-130 nodes), and resolved molecules with hydrogens (incl. molecules with ez_isomer annotations '
        'from slash marks); default_bond drawn from [0.1, 10]; each graph is laid out as is and as a consistently '
        'relabelled copy (integer keys -> string keys or shifted integers, annotations relabelled too); optionally '
        'align_with; numpy seed drawn. Oracle: set(pos) == set(G), every position a finite ndarray of shape (2,), no two bonded '
        'nodes coincide (distance > 1e-9 x bond), |mean bond length - default_bond| <= 1e-7 x default_bond, for '
        'the graph and for its relabelled copy; half of the resolved molecules are also laid out through '
        'draw_molecule(layout_method=vespr) twice in one process with two different bond lengths and a third time after the caller scaled the returned positions in place; 10 % bond lengths as numpy scalars. non-trivial = >=3 nodes and a ring or a branch; distinct = graph + '
        'bond length')
ASSUMPTIONS = ['layout quality is not asserted, only the stated postconditions',
               'the numpy global RNG is seeded by the harness before every layout call']


def budget(tier):
    if tier == 'thorough':
        return dict(examples=3000, shards=16, procs=16)
    return dict(examples=450, shards=4, procs=4)


def gen(R, tier):
    kind = R.choice(['path', 'star', 'cycle', 'ladder', 'random', 'molecule', 'molecule', 'stereo'])
    ez = {}
    if kind in ('molecule', 'stereo'):
        if kind == 'stereo':
            from . import c15
            c = c15.gen(R, tier)
            if c is None:
                return None
            s = c['variants'][R.randrange(len(c['variants']))]['input']
        else:
            m, _ = molgen.gen_mol_class(R)
            owner = molgen.partition(R, m, max_frags=R.choice([1, 2, 4]), min_frags=1)
            s, info = molgen.build_cgsmiles(R, m, owner, style=molgen.style_draw(R))
            if s is None:
                return None
        spec = dict(kind=kind, string=s)
    else:
        n = R.choice([R.randint(2, 5), R.randint(5, 15), R.randint(15, 40), R.randint(2, 12), R.randint(5, 15)])
        if kind in ('path', 'random', 'ladder') and R.chance(0.12):
            n = R.randint(50, 130 if tier == 'thorough' else 90)      # long, extended molecules
        if kind == 'path':
            edges = [[i, i + 1] for i in range(n - 1)]
        elif kind == 'star':
            edges = [[0, i] for i in range(1, n)]
        elif kind == 'cycle':
            n = max(n, 3)
            edges = [[i, (i + 1) % n] for i in range(n)]
        elif kind == 'ladder':
            k = max(2, n // 2)
            edges = [[i, i + 1] for i in range(k - 1)] + [[k + i, k + i + 1] for i in range(k - 1)] + [[i, k + i] for i in range(k)]
            n = 2 * k
        else:
            edges = [[R.randrange(i), i] for i in range(1, n)]
            for _ in range(R.choice([0, 1, 2, 4])):
                a, b = sorted(R.sample(range(n), 2))
                if [a, b] not in edges and n > 2:
                    edges.append([a, b])
        spec = dict(kind=kind, n=n, edges=edges)
        if R.chance(0.4):
            # bond orders as on coarse graphs, including order-0 ('.') edges: every edge counts for the scale
            spec['orders'] = [R.choice([0, 0, 1, 2, 3]) for _ in edges]
    spec['relabel'] = R.choice(['str', 'shift', 'reverse'])
    if R.chance(0.3):
        # documented option: rotate the layout so that its longest axis is aligned with a vector
        spec['align_with'] = R.choice([[1, 0], [0, 1], [1, 1], [-1, 2]])
    draw = round(R.uniform(0.3, 5.0), 3) if ('string' in spec and R.chance(0.5)) else None   # drawing needs elements
    return dict(draw=draw, np_bond=R.choice([1, 2, 3]) if R.chance(0.1) else None, input=spec, bond=round(R.choice([R.uniform(0.1, 1.0), 1.0, R.uniform(1.0, 10.0)]), 4),
                np_seed=R.randint(0, 2 ** 31 - 1), features=['kind:' + kind, 'relabel:' + spec['relabel']] + (['edge_orders_incl_0'] if spec.get('orders') else []) + (['align_with'] if spec.get('align_with') else []) + (['nodes>=50'] if spec.get('n', 0) >= 50 else []) + (['through_draw_molecule'] if draw else []))


def build(spec):
    if 'string' in spec:
        from .c01 import resolve
        cg, fine = sut(resolve, spec['string'])
        return fine
    g = nx.Graph()
    g.add_nodes_from(range(spec['n']))
    orders = spec.get('orders') or [1] * len(spec['edges'])
    for (a, b), o in zip(spec['edges'], orders):
        g.add_edge(a, b, order=o)
    return g


def relabel(g, how):
    nodes = sorted(g.nodes)
    if how == 'str':
        mp = {n: 'n%03d' % n for n in nodes}
    elif how == 'shift':
        mp = {n: n + 1000 for n in nodes}
    else:
        mp = {n: len(nodes) - 1 - i for i, n in enumerate(nodes)}
    h = nx.relabel_nodes(g, mp, copy=True)
    for n, d in h.nodes(data=True):
        if 'ez_isomer' in d:
            d['ez_isomer'] = [tuple(mp[x] for x in t[:4]) + (t[4],) for t in d['ez_isomer']]
    return h


def nontrivial(case):
    spec = case['input']
    if 'string' in spec:
        return True
    g = nx.Graph([tuple(e) for e in spec['edges']])
    return spec['n'] >= 3 and (g.number_of_edges() >= g.number_of_nodes() or max(dict(g.degree).values()) >= 3)


def key(case):
    return repr(case['input']) + repr(case['bond'])


def check_layout(g, pos, bond, what):
    import numpy as np
    expect(isinstance(pos, dict) and set(pos) == set(g.nodes), 'layout:keys',
           lambda: '%s: positions for %r, nodes are %r' % (what, sorted(pos, key=repr)[:10], sorted(g.nodes, key=repr)[:10]))
    for n, p in pos.items():
        expect(isinstance(p, np.ndarray) and p.shape == (2,) and np.all(np.isfinite(p)), 'layout:position',
               lambda: '%s: node %r has position %r' % (what, n, p))
    ds = [float(np.linalg.norm(pos[a] - pos[b])) for a, b in g.edges]
    expect(min(ds) > 1e-9 * bond, 'layout:bonded-nodes-coincide', lambda: '%s: shortest bond %r' % (what, min(ds)))
    mean = sum(ds) / len(ds)
    expect(abs(mean - bond) <= 1e-7 * bond, 'layout:scale',
           lambda: '%s: mean bond length %r, requested %r (%d nodes, %d edges)' % (what, mean, bond, len(g), g.number_of_edges()))


def oracle(case):
    import numpy as np
    from cgsmiles.graph_layout import vespr_layout
    g = build(case['input'])
    if g.number_of_edges() == 0 or not nx.is_connected(g):
        return
    np.random.seed(case['np_seed'])
    kw = {}
    if case['input'].get('align_with'):
        # the axis as float or as integer array (np.array([1, 0]))
        kw['align_with'] = np.array(case['input']['align_with'], dtype=float if case['np_seed'] % 2 else int)
    pos = sut(vespr_layout, g, default_bond=case['bond'], **kw)
    check_layout(g, pos, case['bond'], 'original labels')
    if case.get('np_bond'):
        # a bond length taken from a numpy array (np.int64 / np.float64 scalar)
        for b in (np.int64(case['np_bond']), np.float64(case['np_bond'])):
            np.random.seed(case['np_seed'])
            posn = sut(vespr_layout, g, default_bond=b, **kw)
            check_layout(g, posn, float(b), 'default_bond=%r (%s)' % (b, type(b).__name__))
    h = relabel(g, case['input']['relabel'])
    np.random.seed(case['np_seed'])
    pos2 = sut(vespr_layout, h, default_bond=case['bond'], **kw)
    check_layout(h, pos2, case['bond'], 'relabelled (%s)' % case['input']['relabel'])
    if case.get('draw'):
        # the drawing entry point (layout_method='vespr'): twice in one process with different bond lengths
        import matplotlib
        matplotlib.use('Agg')
        import matplotlib.pyplot as plt
        from cgsmiles.drawing import draw_molecule
        for bond in (case['bond'], case['draw']):
            fig, ax = plt.subplots()
            try:
                np.random.seed(case['np_seed'])
                dkw = dict(kw)
                if not dkw and case['np_seed'] % 3 == 0:
                    dkw['align_with'] = ['x', 'y', 'diag'][case['np_seed'] % 9 // 3]
                _, pos3 = sut(draw_molecule, g, ax=ax, layout_method='vespr', cg_mapping=False, default_bond=bond, **dkw)
            finally:
                plt.close(fig)
            check_layout(g, pos3, bond, 'draw_molecule(default_bond=%r)' % bond)
        # what the caller does to a returned layout must not show up in the next drawing of the same graph
        for n in pos3:
            pos3[n] *= 3.0
        fig, ax = plt.subplots()
        try:
            np.random.seed(case['np_seed'])
            _, pos4 = sut(draw_molecule, g, ax=ax, layout_method='vespr', cg_mapping=False, default_bond=case['draw'], **kw)
        finally:
            plt.close(fig)
        check_layout(g, pos4, case['draw'], 'draw_molecule again after the caller scaled the returned positions in place')
