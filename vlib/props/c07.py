"""C07 - writing a graph and reading it back is the identity."""
import itertools
import networkx as nx
from .. import env  # noqa
from ..runner import sut, expect

ID = 'C07'
RULE = ('cases: (a) exhaustive: every connected graph of the networkx atlas up to 5 (quick) / 6 (thorough) nodes x '
        'bond-order assignments (all assignments over {0,1,2} when |E| <= 6 (quick) / 8 (thorough), otherwise '
        'uniform + one-hot assignments over {0,2,3,4}) x 2 relabelings (identity, reversed+offset keys) x 2 name '
        'patterns; (b) Hypothesis: random trees / cyclic graphs up to 25 nodes (15 % dense graphs of 6-11 nodes with >= 10 simultaneously open ring bonds), orders 0-4, arbitrary integer or '
        'string keys, shuffled insertion order; 10 % with numpy integer orders; 0.4 % linear chains of 1050-1600 nodes. Oracle: read_cgsmiles(write_cgsmiles_graph(G)) succeeds and is '
        'isomorphic to G on fragname and order. classes record whether a non-single order sits on a chain edge, '
        'a branch edge or a ring-closing edge of the writer\'s DFS. non-trivial = >=3 nodes and (a cycle or a '
        'branch or a non-single order); distinct = graph (nodes, names, edges, orders)')
ASSUMPTIONS = ['graphs are connected (writer documents a single connected component)',
               'node names are alphanumeric']


def budget(tier):
    if tier == 'thorough':
        return dict(examples=8000, shards=16, procs=16)
    return dict(examples=800, shards=4, procs=4)


def _atlas(maxn):
    from networkx.generators.atlas import graph_atlas_g
    return [g for g in graph_atlas_g() if 1 <= len(g) <= maxn and nx.is_connected(g)]


def _assignments(ne, full_limit):
    if ne <= full_limit:
        yield from itertools.product((1, 2, 0), repeat=ne)
        return
    for o in (1, 2, 0, 3, 4):
        yield (o,) * ne
    for i in range(ne):
        for o in (0, 2, 3, 4):
            yield tuple(o if k == i else 1 for k in range(ne))


def make_case(nodes, edges, feats=()):
    return dict(input=dict(nodes=nodes, edges=edges), features=sorted(feats))


def enumerate_cases(tier):
    maxn, lim = (6, 8) if tier == 'thorough' else (5, 6)
    for g0 in _atlas(maxn):
        el = sorted(g0.edges)
        n = len(g0)
        for orders in _assignments(len(el), lim):
            for rel in (0, 1):
                mp = {v: v for v in g0.nodes} if rel == 0 else {v: 3 + 2 * (n - 1 - v) for v in g0.nodes}
                for pat in (0, 1):
                    names = {v: ('N%d' % (v % 2)) if pat == 0 else 'ABCDEF'[v] for v in g0.nodes}
                    nodes = [[mp[v], names[v]] for v in sorted(g0.nodes)]
                    edges = [[mp[a], mp[b], o] for (a, b), o in zip(el, orders)]
                    yield make_case(nodes, edges, {'enumerated'})


def gen_long_chain(R):
    """a polymer-sized linear chain (1050-1600 nodes): deeper than the interpreter's recursion limit"""
    n = R.randint(1050, 1600)
    pool = R.choice([['A'], ['PEO', 'PMA'], ['A', 'B', 'C']])
    orders = R.choice([(1,), (1, 1, 1, 2), (0, 1, 2, 3, 4)])
    off = R.choice([0, 0, 5])
    keys = [off + i for i in range(n)]
    if R.chance(0.5):
        R.shuffle(keys)         # the smallest key (where the writer starts) then lies inside the chain
    nodes = [[keys[i], R.choice(pool)] for i in range(n)]
    edges = [[keys[i], keys[i + 1], R.choice(orders)] for i in range(n - 1)]
    return make_case(nodes, edges, {'random', 'long_chain_1000+'})


def gen(R, tier):
    if R.chance(0.004):
        return gen_long_chain(R)
    n = R.choice([R.randint(1, 4), R.randint(4, 9), R.randint(8, 25)])
    parents = [R.randrange(i) if not R.chance(0.5) else i - 1 for i in range(1, n)]
    edges = {}
    orders = R.choice([(1,), (0, 1, 2, 3, 4), (1, 1, 1, 2, 3), (0, 1, 2, 3, 4)])
    for i, p in enumerate(parents, start=1):
        edges[(p, i)] = R.choice(orders)
    nextra = R.choice([0, 0, 1, 2, 4]) if n >= 3 else 0
    dense = n >= 6 and R.chance(0.15)
    if dense:
        # many simultaneously open ring bonds (markers >= 10)
        n = min(n, 11)
        parents = parents[:n - 1]
        edges = {(p, i): edges[(p, i)] for i, p in enumerate(parents, start=1)}
        nextra = R.randint(n, n * (n - 1) // 2)
    for _ in range(nextra):
        a, b = sorted(R.sample(range(n), 2))
        if (a, b) not in edges:
            edges[(a, b)] = R.choice(orders)
    keykind = R.choice(['int', 'int', 'offset', 'perm', 'str'])
    perm = list(range(n))
    if keykind == 'perm':
        R.shuffle(perm)
    elif keykind == 'offset':
        off = R.randint(1, 1000)
        perm = [off + 3 * i for i in perm]
    if keykind == 'str':
        keys = ['k%02d' % i for i in perm]
    else:
        keys = perm
    pool = R.choice([['A'], ['A', 'B'], ['PEO', 'PMA', 'OH', 'X1', 'b_2'], ['αGlc', 'β', 'A', 'PEO']])      # (names are alphanumeric, not necessarily ASCII)
    nodes = [[keys[i], R.choice(pool)] for i in range(n)]
    order = list(range(n))
    if R.chance(0.5):
        R.shuffle(order)
    nodes = [nodes[i] for i in order]
    el = [[keys[a], keys[b], o] for (a, b), o in edges.items()]
    if R.chance(0.5):
        R.shuffle(el)
    case = make_case(nodes, el, {'random', 'keys:' + keykind} | ({'dense'} if dense else set()))
    if R.chance(0.12):
        # the graph is handed over read-only: frozen, or as the subgraph view of one component of a mixture
        case['input']['readonly'] = R.choice(['frozen', 'view'])
        case['features'] = sorted(set(case['features']) | {'read_only_graph'})
    if R.chance(0.1):
        # bond orders taken from a numpy array (np.int64 scalars)
        case['input']['np_orders'] = True
        case['features'] = sorted(set(case['features']) | {'numpy_integer_orders'})
    return case


def build(case):
    g = nx.Graph()
    for k, name in case['input']['nodes']:
        g.add_node(k, fragname=name)
    np_orders = case['input'].get('np_orders')
    if np_orders:
        import numpy as np
    for a, b, o in case['input']['edges']:
        g.add_edge(a, b, order=np.int64(o) if np_orders else o)
    ro = case['input'].get('readonly')
    if ro == 'frozen':
        return nx.freeze(g)
    if ro == 'view':
        keep = list(g.nodes)
        g.add_node('other-molecule', fragname='W')
        return g.subgraph(keep)
    return g


def _dfs_classes(g):
    start = min(g)
    succ = nx.dfs_successors(g, source=start)
    tree = set()
    out = set()
    for u, vs in succ.items():
        for i, v in enumerate(vs):
            tree.add(frozenset((u, v)))
            if g.edges[u, v]['order'] != 1:
                out.add('nonsingle_on_branch_edge' if i > 0 else 'nonsingle_on_chain_edge')
        if len(vs) > 1:
            out.add('branch')
    for a, b, o in g.edges(data='order'):
        if frozenset((a, b)) not in tree:
            out.add('ring')
            if o != 1:
                out.add('nonsingle_on_ring_edge')
    return out


def classes(case):
    g = build(case)
    return list(case['features']) + sorted(_dfs_classes(g)) + ['nodes:%s' % (len(g) if len(g) < 7 else '7+')]


def nontrivial(case):
    g = build(case)
    if len(g) < 3:
        return False
    c = _dfs_classes(g)
    return bool(c)


def key(case):
    i = case['input']
    return repr((sorted(map(tuple, i['nodes']), key=repr), sorted((tuple(sorted((a, b), key=repr)), o) for a, b, o in i['edges'])))


def oracle(case):
    from cgsmiles import read_cgsmiles
    from cgsmiles.write_cgsmiles import write_cgsmiles_graph
    g = build(case)
    if len(g) > 300:
        from ..runner import user_recursion_limit
        with user_recursion_limit():
            s = sut(write_cgsmiles_graph, g)
            sut(read_cgsmiles, s)
    s = sut(write_cgsmiles_graph, g)
    expect(isinstance(s, str) and s.startswith('{') and s.endswith('}'), 'write:format', lambda: 'writer returned %r' % (s,))
    try:
        h = sut(read_cgsmiles, s)
    except Exception as e:
        if hasattr(e, 'sig'):
            e.sig = 'reader-rejects-written-string:' + e.sig
            e.msg = 'written %s :: %s' % (s, e.msg)
        raise
    from ..invariants import iso
    ok = iso(g, h, lambda x, y: x['fragname'] == y['fragname'], lambda x, y: x['order'] == y['order'])
    expect(ok, 'roundtrip:not-isomorphic',
           lambda: 'written %s reads back as nodes=%r edges=%r' % (
               s, [d['fragname'] for _, d in h.nodes(data=True)], sorted(h.edges(data='order'))))
