"""C12 - output numbering is canonical and results depend on the input alone."""
import hashlib
import json
import os
import re
import subprocess
import sys

import networkx as nx

from .. import env
from .. import resgen, invariants
from ..runner import sut, expect, Fail, SutError, Collector, hypothesis_run, evaluate, note
from .c02 import run_steps, AROMATIC_REJECT

ID = 'C12'
RULE = ('[history machine rules: new_library, resolve (3 constructors), start_live/step_live, sample, extend (read_fragments into a held library), scribble (caller edits freshly read copies in place); clause: atom names count 0,1,2.. in key order within a coarse node; one library dict for all levels] '
        'cases: C01 strings, multi-level strings and ambiguous fragment sets (incl. shared atoms). Per case: node '
        'keys are exactly 0..n-1, the fragid sequence is non-decreasing, without shared atoms each coarse node\'s '
        'atoms (H included) form one contiguous block in base-graph order, atom names are element+index and unique '
        'within each coarse node; equal canonical dumps (coarse and fine graph with all attributes, nested fragment '
        'graphs; nodes sorted by key) for: a repeated call, reversed / rotated / randomly permuted fragment definitions in '
        'every block, and the three constructors (whole string; base graph + fragment string; base string + '
        'fragment graphs); the fragment graphs passed in are unchanged afterwards (deep dump). Histories: a '
        'Hypothesis RuleBasedStateMachine keeps a pool of parsed fragment libraries shared between resolvers '
        '(rules: new library, resolve through one of the three constructors on the shared graphs, advance a '
        'long-lived resolver by one step, sample with a MoleculeSampler built on a shared library); after every '
        'step each result equals the memoised reference of its input and every library equals its dump at '
        'creation. Processes: the same batch of inputs is resolved in fresh interpreters under PYTHONHASHSEED '
        '0,1,2 and 1000+VERIF_SEED (more in the thorough tier) and the dumps are compared byte for byte. non-trivial = >=2 fragments or >=2 uses of one '
        'library; distinct = string')
ASSUMPTIONS = ['hash seeds are sampled (4 quick / 8 thorough), not enumerated']


def budget(tier):
    if tier == 'thorough':
        return dict(examples=1500, shards=16, procs=16)
    return dict(examples=200, shards=4, procs=4)


def gen(R, tier):
    if R.chance(0.04):
        return gen_polymer(R)
    case = resgen.gen_resolvable(R, tier, kinds=('cut', 'cut', 'levels', 'fragset', 'fragset'))
    if case is None:
        return None
    case['perm_seed'] = R.randint(0, 10 ** 6)
    return case


POLY = ['{[#A]|%d}.{#A=[!]COC[!]}', '{[#T][#A]|%d[#T]}.{#A=[!]CC(C)C[!],#T=[!]C}', '{[#HA]|%d}.{#HA=[$]CC([$])C(=O)OCCCCCC}',
        '{[#A]|%d}.{#A=[>]CC([<])c1ccccc1}', '{[#A]|%d[#B]|3}.{#A=[$]CC([$])C(=O)OCCCC,#B=[$]COC[$]}']


def gen_polymer(R):
    """long homopolymers: >= 9 coarse nodes (also joined by shared atoms), > 128 atoms, repeat units of > 20 atoms"""
    s = R.choice(POLY) % R.randint(9, 18)
    return dict(input=s, last_all_atom=True, legacy=True, kind='polymer', dedicated=False, nlevels=1, nfr=9,
                perm_seed=R.randint(0, 10 ** 6), features=['polymer_of_9+_units'])


def nontrivial(case):
    s = case['input']
    return s[:s.index('}')].count('[#') >= 2 or '|' in s[:s.index('}')]


def blocks_of(s):
    return re.findall(r"\{[^\}]+\}", s)


def permute_blocks(s, how, seed):
    bl = blocks_of(s)
    out = [bl[0]]
    import random
    rnd = random.Random(seed)
    for b in bl[1:]:
        defs = b[1:-1].split(',')
        if how == 'reverse':
            defs = defs[::-1]
        elif how == 'rotate':
            defs = defs[1:] + defs[:1]
        else:
            rnd.shuffle(defs)
        out.append('{' + ','.join(defs) + '}')
    return '.'.join(out)


def full_dump(cg, fine, unordered_bonding=False):
    return invariants.dump(cg, unordered_bonding) + '\n' + invariants.dump(fine, unordered_bonding)


def lib_dump(dicts):
    return json.dumps([[name, invariants.dump_obj(g)] for d in dicts for name, g in sorted(d.items())],
                      sort_keys=True, default=repr)


def resolve_string(s, aa, legacy):
    from cgsmiles import MoleculeResolver
    return MoleculeResolver.from_string(s, last_all_atom=aa, legacy=legacy).resolve_all()


def oracle(case):
    from cgsmiles import MoleculeResolver, read_cgsmiles
    if 'history' in case:
        try:
            replay_history(case['history'])
        except HistoryFailure as f:
            raise Fail(f.kind, f.detail)
        return
    if 'hash_seeds' in case:
        outs = hash_seed_run([dict(input=case['input'], aa=case['last_all_atom'], legacy=case['legacy'])], case['hash_seeds'])
        vals = {k: v[0] for k, v in outs.items()}
        expect(len(set(vals.values())) == 1, 'determinism:hash-seed', lambda: 'results differ between hash seeds: %r' % vals)
        return
    aa, legacy, s = case['last_all_atom'], case['legacy'], case['input']

    def step(lv, cg, fine, templates, all_atom):
        invariants.check_numbering(cg, fine, all_atom, 'level %d: ' % lv)
    r = run_steps(case, step)
    if r.resolution_counter < r.resolutions:
        return       # legitimately rejected ambiguous set
    ref = full_dump(*sut(resolve_string, s, aa, legacy))
    again = full_dump(*sut(resolve_string, s, aa, legacy))
    expect(again == ref, 'determinism:repeated-call', 'two calls on the same string give different graphs')
    for how in ('reverse', 'rotate', 'random'):
        s2 = permute_blocks(s, how, case['perm_seed'])
        if s2 == s:
            continue
        d2 = full_dump(*sut(resolve_string, s2, aa, legacy))
        expect(d2 == ref, 'determinism:definition-order',
               lambda: 'fragment definitions permuted (%s): %s gives a different graph' % (how, s2))
    bl = blocks_of(s)
    meta = sut(read_cgsmiles, bl[0])
    d3 = full_dump(*sut(lambda: MoleculeResolver.from_graph('.'.join(bl[1:]), meta, last_all_atom=aa, legacy=legacy).resolve_all()))
    expect(d3 == ref, 'determinism:from_graph', 'from_graph(base graph + fragment string) differs from from_string')
    if not case['dedicated'] or '!' in s:
        # ambiguous descriptor sets: which of several compatible descriptors is used depends on the
        # order in which the base edges are visited, i.e. on the insertion order of the given graph;
        # with shared atoms the surviving copy (and the order of its memberships) depends on it too
        return _rest_of_oracle(case, bl, ref, aa, legacy)
    # the same base graph with its nodes inserted in another order is the same input
    import random
    order = list(meta.nodes)
    random.Random(case['perm_seed']).shuffle(order)
    meta2 = nx.Graph()
    for k in order:
        meta2.add_node(k, **{a: v for a, v in meta.nodes[k].items() if a in ('fragname', 'charge', 'weight') or a not in invariants.INTERNAL})
    meta0 = sut(read_cgsmiles, bl[0])
    for a, b, d in meta0.edges(data=True):
        meta2.add_edge(a, b, **d)
    d3b = full_dump(*sut(lambda: MoleculeResolver.from_graph('.'.join(bl[1:]), meta2, last_all_atom=aa, legacy=legacy).resolve_all()), True)
    ref_u = full_dump(*sut(resolve_string, s, aa, legacy), True)
    expect(d3b == ref_u, 'determinism:from_graph-node-order',
           lambda: 'from_graph with the base-graph nodes inserted in the order %r differs from from_string' % order)
    _rest_of_oracle(case, bl, ref, aa, legacy)


def _rest_of_oracle(case, bl, ref, aa, legacy):
    from cgsmiles import MoleculeResolver
    dicts = sut(MoleculeResolver.read_fragment_strings, bl[1:], last_all_atom=aa)
    before = lib_dump(dicts)
    d4 = full_dump(*sut(lambda: MoleculeResolver.from_fragment_dicts(bl[0], dicts, last_all_atom=aa, legacy=legacy).resolve_all()))
    expect(d4 == ref, 'determinism:from_fragment_dicts', 'from_fragment_dicts(base string + fragment graphs) differs from from_string')
    expect(lib_dump(dicts) == before, 'determinism:library-modified', 'the fragment graphs passed to from_fragment_dicts were modified')
    d5 = full_dump(*sut(lambda: MoleculeResolver.from_fragment_dicts(bl[0], dicts, last_all_atom=aa, legacy=legacy).resolve_all()))
    expect(d5 == ref, 'determinism:library-reuse', 'second resolver on the same fragment graphs gives a different result')
    names = [k for d in dicts for k in d]
    if len(dicts) >= 2 and len(set(names)) == len(names):
        # one library object holding the fragments of every level, passed for each level
        merged = {}
        for d in dicts:
            merged.update(d)
        note('one_library_dict_for_all_levels')
        d6 = full_dump(*sut(lambda: MoleculeResolver.from_fragment_dicts(bl[0], [merged] * len(dicts), last_all_atom=aa, legacy=legacy).resolve_all()))
        expect(d6 == ref, 'determinism:one-library-for-all-levels',
               'from_fragment_dicts with the same library dict for every level differs from from_string')


# ----------------------------------------------------------------------------------------
# sub-process harness (hash seeds)
# ----------------------------------------------------------------------------------------
class _Sink:
    def __init__(self):
        self.cases = []
        self.known_features = set()

    def eval_case(self, case):
        if case is not None:
            self.cases.append(case)


def hash_seed_run(cases, seeds, worker='resolve'):
    work = os.path.join(env.VERIF, '.work')
    os.makedirs(work, exist_ok=True)
    path = os.path.join(work, 'hashbatch-%s-%d.json' % (worker, os.getpid()))
    with open(path, 'w') as fh:
        json.dump(cases, fh)
    outs = {}
    try:
        for hs in seeds:
            e = dict(os.environ)
            e['PYTHONHASHSEED'] = str(hs)
            p = subprocess.run([sys.executable, '-m', 'vlib.hashworker', worker, path], cwd=env.VERIF, env=e,
                               capture_output=True, text=True, timeout=3600)
            if p.returncode != 0:
                raise RuntimeError('hash worker failed: ' + p.stderr[-2000:])
            outs[hs] = json.loads(p.stdout.strip().splitlines()[-1])
    finally:
        os.remove(path)
    return outs


def extra(tier, seed, col):
    import types
    me = sys.modules[__name__]
    # --- processes / hash seeds
    sink = _Sink()
    hypothesis_run(me, tier, seed * 1000 + 991, 150 if tier == 'quick' else 1500, sink)
    cases = sink.cases
    seeds = ['0', '1', '2', str(1000 + seed)] if tier == 'quick' else ['0', '1', '2', '3', '17', '4242', str(1000 + seed), str(77000 + seed)]
    outs = hash_seed_run([dict(input=c['input'], aa=c['last_all_atom'], legacy=c['legacy']) for c in cases],
                         list(dict.fromkeys(seeds)))
    keys = list(outs)
    base = outs[keys[0]]
    compared = 0
    for i, c in enumerate(cases):
        for k in keys[1:]:
            compared += 1
            if outs[k][i] != base[i]:
                col.record_failure('determinism:hash-seed',
                                   'PYTHONHASHSEED=%s and %s give different results (%s vs %s)' % (keys[0], k, base[i][:60], outs[k][i][:60]),
                                   dict(c, hash_seeds=[keys[0], k]), 'hash-seed')
                break
    # --- histories
    nh, steps = (40, 20) if tier == 'quick' else (1000, 30)
    hist = run_machine(seed, nh, steps, col)
    return dict(hash_seed_inputs=len(cases), hash_seeds=keys, hash_seed_comparisons=compared, histories=hist)


# ----------------------------------------------------------------------------------------
# histories: model shared by the stateful machine and by replay
# ----------------------------------------------------------------------------------------
class HistoryFailure(Exception):
    def __init__(self, kind, detail):
        super().__init__(kind, detail)
        self.kind, self.detail = kind, detail


class HistoryModel:
    def __init__(self, stats=None):
        self.libs = []
        self.memo = {}
        self.live = []
        self.log = []
        self.stats = stats if stats is not None else dict(steps=0, shared_uses=0, rules={})

    def count(self, name):
        self.stats['rules'][name] = self.stats['rules'].get(name, 0) + 1
        self.stats['steps'] += 1

    def _result(self, fn):
        try:
            cg, fine = sut(fn)
            return full_dump(cg, fine)
        except SutError as e:
            return 'EXC:' + e.sig

    def _memo(self, key, out, what):
        if key in self.memo:
            if self.memo[key] != out:
                raise HistoryFailure('history:result-changed', what)
        else:
            self.memo[key] = out

    def new_library(self, case):
        from cgsmiles import MoleculeResolver
        self.count('new_library')
        bl = blocks_of(case['input'])
        try:
            dicts = sut(MoleculeResolver.read_fragment_strings, bl[1:], last_all_atom=case['last_all_atom'])
        except SutError:
            return
        self.log.append(['new_library', dict(input=case['input'], last_all_atom=case['last_all_atom'], legacy=case['legacy'])])
        self.libs.append(dict(case=case, base=bl[0], blocks=bl[1:], dicts=dicts, dump0=lib_dump(dicts), uses=0))

    def resolve(self, i, how):
        from cgsmiles import MoleculeResolver, read_cgsmiles
        if not self.libs:
            return
        lib = self.libs[i % len(self.libs)]
        c = lib['case']
        aa, legacy = c['last_all_atom'], c['legacy']
        self.count('resolve:' + how)
        self.log.append(['resolve', i, how])
        if how == 'string':
            out = self._result(lambda: MoleculeResolver.from_string(c['input'], last_all_atom=aa, legacy=legacy).resolve_all())
        elif how == 'graph':
            out = self._result(lambda: MoleculeResolver.from_graph('.'.join(lib['blocks']), read_cgsmiles(lib['base']),
                                                                   last_all_atom=aa, legacy=legacy).resolve_all())
        else:
            lib['uses'] += 1
            if lib['uses'] >= 2:
                self.stats['shared_uses'] += 1
            out = self._result(lambda: MoleculeResolver.from_fragment_dicts(lib['base'], lib['dicts'], last_all_atom=aa,
                                                                            legacy=legacy).resolve_all())
        self._memo(c['input'], out, 'resolving %s through %s gives a different result than earlier in this history' % (c['input'], how))

    def start_live(self, i):
        from cgsmiles import MoleculeResolver
        if not self.libs:
            return
        lib = self.libs[i % len(self.libs)]
        c = lib['case']
        self.count('start_live')
        self.log.append(['start_live', i])
        try:
            r = sut(MoleculeResolver.from_fragment_dicts, lib['base'], lib['dicts'], last_all_atom=c['last_all_atom'], legacy=c['legacy'])
        except SutError:
            return
        lib['uses'] += 1
        self.live.append((lib, r))

    def step_live(self, i):
        if not self.live:
            return
        lib, r = self.live[i % len(self.live)]
        if r.resolution_counter >= r.resolutions:
            return
        self.count('step_live')
        self.log.append(['step_live', i])
        try:
            cg, fine = sut(r.resolve)
        except SutError as e:
            out = 'EXC:' + e.sig
            self.live = [x for x in self.live if x[1] is not r]
        else:
            if r.resolution_counter < r.resolutions:
                return
            out = full_dump(cg, fine)
        key = lib['case']['input']
        self._memo(key, out, 'stepping a long-lived resolver on %s gives a different result than a fresh one' % key)

    def sample(self, i, sd, target):
        from cgsmiles.sample import MoleculeSampler
        if not self.libs:
            return
        lib = self.libs[i % len(self.libs)]
        c = lib['case']
        fd = lib['dicts'][-1]
        descs = sorted({b for g in fd.values() for _, bl in g.nodes(data='bonding') for b in (bl or [])})
        if not descs:
            return
        self.count('sample')
        lib['uses'] += 1
        self.log.append(['sample', i, sd, target])

        def go():
            s = MoleculeSampler(fd, {d: 1.0 for d in descs}, fragment_masses={k: 1.0 for k in fd},
                                all_atom=c['last_all_atom'], seed=sd)
            return invariants.dump(s.sample(target))
        try:
            out = sut(go)
        except SutError as e:
            out = 'EXC:' + e.type
        import hashlib
        self._memo(('sample', c['input'], sd, target, hashlib.md5(lib['dump0'].encode()).hexdigest()), out,
                   'sampling from the shared library of %s (seed %d) changed within this history' % (c['input'], sd))

    def scribble(self, i, variant):
        """the caller reads the fragment blocks of a library AGAIN and edits the returned graphs in place (consumes
        descriptors, re-weights, renames); nothing of that may show up in later reads of the same text"""
        from cgsmiles import MoleculeResolver
        if not self.libs:
            return
        lib = self.libs[i % len(self.libs)]
        c = lib['case']
        self.count('scribble')
        self.log.append(['scribble', i, variant])
        try:
            dicts = sut(MoleculeResolver.read_fragment_strings, lib['blocks'], last_all_atom=c['last_all_atom'])
        except SutError:
            return
        for d in dicts:
            for name, g in d.items():
                for n, nd in g.nodes(data=True):
                    if variant % 3 == 0 and isinstance(nd.get('bonding'), list):
                        del nd['bonding'][:]
                    elif variant % 3 == 1:
                        nd['weight'] = 99.0
                        nd['fragname'] = 'scribbled'
                    else:
                        nd.clear()
                if variant % 3 == 2:
                    g.remove_edges_from(list(g.edges))

    def extend(self, i, variant):
        """read_fragments(text, fragment_dict=<library>): 'only unique new fragments are appended' - a definition
        under a name the library already holds must leave that entry as it is"""
        from cgsmiles.read_fragments import read_fragments
        if not self.libs:
            return
        lib = self.libs[i % len(self.libs)]
        c = lib['case']
        fd = lib['dicts'][-1]
        aa = c['last_all_atom']
        old_names = sorted(fd)
        name = old_names[variant % len(old_names)]
        other = ['[$]CCO[$]', '[>]N[<]', 'OC[$z]', '[$]S'][variant % 4] if aa else ['[$][#q1][#q2][$]', '[>][#q1]', '[#q3][#q3][$z]', '[$][#zz]'][variant % 4]
        new = 'NEW%d' % (variant % 3)
        text = '{#%s=%s,#%s=%s}' % ((name, other, new, other) if variant % 2 else (new, other, name, other))
        self.count('extend')
        self.log.append(['extend', i, variant])
        before = {k: invariants.dump_obj(fd[k]) for k in old_names}
        ids = {k: id(fd[k]) for k in old_names}
        try:
            out = sut(read_fragments, text, all_atom=aa, fragment_dict=fd)
        except SutError:
            return
        if out is not fd:
            raise HistoryFailure('history:library-not-extended-in-place', 'read_fragments(%s, fragment_dict=lib) returned another dict' % text)
        for k in old_names:
            if k not in fd or id(fd[k]) != ids[k] or invariants.dump_obj(fd[k]) != before[k]:
                raise HistoryFailure('history:library-modified', 'read_fragments(%s, fragment_dict=library of %s) replaced or changed the entry %s' % (text, c['input'], k))
        if new not in fd:
            raise HistoryFailure('history:library-not-extended', 'read_fragments(%s, fragment_dict=lib): %s was not appended' % (text, new))
        lib['dump0'] = lib_dump(lib['dicts'])
        lib['version'] = lib.get('version', 0) + 1      # the library holds more fragments now: samples from it may differ

    def check_libs(self):
        for lib in self.libs:
            if lib_dump(lib['dicts']) != lib['dump0']:
                raise HistoryFailure('history:library-modified', 'fragment library of %s was modified by: %r' % (
                    lib['case']['input'], self.log[-1] if self.log else None))


def replay_history(log):
    m = HistoryModel()
    for entry in log:
        op, args = entry[0], entry[1:]
        if op == 'new_library':
            m.new_library(args[0])
        else:
            getattr(m, op)(*args)
        m.check_libs()


def run_machine(seed, n_histories, steps, col):
    import hypothesis
    from hypothesis import settings, strategies as st, HealthCheck, Phase
    from hypothesis.stateful import RuleBasedStateMachine, rule, invariant, precondition, run_state_machine_as_test
    from ..draw import Draw

    stats = dict(histories=0, steps=0, shared_uses=0, rules={})
    failures = []

    class Histories(RuleBasedStateMachine):
        def __init__(self):
            super().__init__()
            self.m = HistoryModel(stats)
            stats['histories'] += 1

        def _do(self, fn, *a):
            try:
                fn(*a)
            except HistoryFailure as f:
                failures.append((f.kind, f.detail, list(self.m.log)))
                raise AssertionError(f.kind)

        @precondition(lambda self: len(self.m.libs) < 3)
        @rule(data=st.data())
        def new_library(self, data):
            case = resgen.gen_resolvable(Draw(data), 'quick', kinds=('cut', 'levels', 'fragset'))
            if case is not None:
                self._do(self.m.new_library, case)

        @precondition(lambda self: self.m.libs)
        @rule(i=st.integers(0, 50), how=st.sampled_from(['string', 'graph', 'dicts', 'dicts']))
        def resolve(self, i, how):
            self._do(self.m.resolve, i, how)

        @precondition(lambda self: self.m.libs)
        @rule(i=st.integers(0, 50))
        def start_live(self, i):
            self._do(self.m.start_live, i)

        @precondition(lambda self: self.m.live)
        @rule(i=st.integers(0, 50))
        def step_live(self, i):
            self._do(self.m.step_live, i)

        @precondition(lambda self: self.m.libs)
        @rule(i=st.integers(0, 50), sd=st.integers(0, 5), tw=st.integers(1, 6))
        def sample(self, i, sd, tw):
            self._do(self.m.sample, i, sd, tw)

        @precondition(lambda self: self.m.libs)
        @rule(i=st.integers(0, 50), variant=st.integers(0, 5))
        def scribble(self, i, variant):
            self._do(self.m.scribble, i, variant)

        @precondition(lambda self: self.m.libs)
        @rule(i=st.integers(0, 50), variant=st.integers(0, 23))
        def extend(self, i, variant):
            self._do(self.m.extend, i, variant)

        @invariant()
        def libraries_untouched(self):
            self._do(self.m.check_libs)

    machine = hypothesis.seed(seed * 1000 + 555)(Histories)
    try:
        run_state_machine_as_test(machine, settings=settings(
            max_examples=n_histories, stateful_step_count=steps, database=None, deadline=None,
            suppress_health_check=list(HealthCheck), phases=[Phase.generate, Phase.shrink],
            report_multiple_bugs=False, print_blob=False))
    except AssertionError:
        pass
    except BaseException as e:
        from ..runner import is_flaky
        if not (failures and is_flaky(e)):
            raise
    if failures:
        kind, detail, log = failures[-1]
        col.record_failure(kind, detail, dict(input='history of %d steps' % len(log), history=log, features=['history']), 'history')
    stats['history_failures'] = len(failures)
    return stats
