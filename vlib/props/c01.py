"""C01 - cutting a molecule into fragments and resolving gives the molecule back."""
import networkx as nx
from .. import env  # noqa
from .. import molgen
from ..runner import sut, expect, Fail

ID = 'C01'
RULE = ('cases: random molecule model (C N O S P F Cl Br, charged centres, chains, branches, aliphatic rings, '
        'benzene/pyridine rings, fused aromatic systems (naphthalene, anthracene, phenanthrene), para/ortho-quinoid rings written upper- or lower-case, bond orders 1-3; size classes up to 14/20 heavy atoms) x random partition into '
        '1..n connected fragments x one labelled descriptor pair per cut bond (labels unique - letters, x1/x2.. or digits - except that cuts leaving ONE atom towards the same fragment may share a label; $x/$x or >x/<x with the '
        'order symbol) x random SMILES rendering per fragment (root, branch order, ring digits 1-9/%nn, bracket '
        'atoms, explicit single bonds, descriptor before/after ring digits, after branches, leading) x shuffled '
        'fragment definitions x own base-graph writer (random root, ring markers); additionally the base graph '
        'handed over as nx.Graph with shuffled node insertion order. Oracle: heavy-atom graph of the result '
        '(element, charge, H count, bond orders, 1.5 on aromatic-template bonds) isomorphic to the model built '
        'by construction (independent valence table), every H has degree 1 / order 1, and the result is '
        'isomorphic to resolving the uncut molecule as one fragment. non-trivial = >=2 fragments; distinct = string')
ASSUMPTIONS = ['non-aromatic rings carry at most one double bond (pysmiles calls any alternating ring aromatic)',
               'aromatic rings are benzene/pyridine templates (no pyrrole-type aromatics, documented as rejected)',
               'expected hydrogens = smallest usual valence >= bond sum (C4 N3,5 O2 S2,4,6 P3,5 hal 1; charged: '
               'iso-electronic shift)']


def budget(tier):
    if tier == 'thorough':
        return dict(examples=4000, shards=16, procs=16)
    return dict(examples=1200, shards=4, procs=4)


def build_case(R, tier, min_frags=1, classes=None, kinds=('$', '><')):
    big = (tier == 'thorough') and R.chance(0.4)
    if classes is None and R.chance(0.08):
        # (extra share for sulfur next to aromatic rings: 'Sc', 'Sn' letter pairs in the text)
        classes = [c for c in molgen.MOL_CLASSES if c['name'] == 'thioaryl']
    m, cname = molgen.gen_mol_class(R, big=big, classes=classes)
    fclass = R.choice(['one', 'two', 'few', 'many'])
    lo, hi = {'one': (1, 1), 'two': (2, 2), 'few': (2, 4), 'many': (4, 7 if tier == 'thorough' else 5)}[fclass]
    lo = max(lo, min_frags)
    hi = max(hi, lo)
    owner = molgen.partition(R, m, max_frags=hi, min_frags=lo)
    feats = {'mol:' + cname}
    style = molgen.style_draw(R)
    mr = m
    if m.arom_rings and R.chance(0.3):
        # aromatic rings written in Kekule form (upper-case atoms, alternating bonds); cut ring
        # bonds then carry order 1 or 2 on their descriptors, the result is still aromatic
        mr = molgen.kekulized(R, m)
        feats.add('kekule_rendering')
    elif m.quin_rings and R.chance(0.75):
        # quinoid rings (conjugated, not aromatic) written lower-case: cut ring bonds carry no order,
        # exocyclic C=O / C=C cuts carry '='; the unique Kekule structure has to come back
        mr = molgen.lowered(m)
        feats.add('quinoid_ring_written_lower_case')
    s, info = molgen.build_cgsmiles(R, mr, owner, kinds=kinds, style=style, feats=feats)
    if s is None:
        return None, None, None
    nfr = info['nfr']
    feats.add('frags:%s' % (nfr if nfr < 4 else '4+'))
    return m, s, dict(info=info, feats=feats, owner=owner, style=style)


def gen(R, tier):
    if R.chance(0.15):
        from .. import resgen
        c = resgen.gen_multicut_string(R, tier)
        if c is None:
            return None
        m = molgen.Mol.from_json(c['model'])
        single, _ = molgen.render_fragment(R, m, list(range(len(m.atoms))), {}, molgen.style_draw(R))
        blocks = c['input'].split('.', 1)
        import re
        names = re.findall(r'\[#(\w+)\]', blocks[0])
        from .. import gram
        nodes_, edges_ = gram.interpret(gram.parse(blocks[0]))
        return dict(input=c['input'], model=c['model'], nfr=2, features=c['features'], uncut='{[#M]}.{#M=%s}' % single,
                    frag_block=blocks[1], base_nodes=[[n, nodes_[n][0]] for n in reversed(range(len(nodes_)))],
                    base_edges=[[a, b, o] for (a, b), o in edges_.items()])
    m, s, x = build_case(R, tier)
    if m is None:
        return None
    info = x['info']
    # uncut molecule as a single fragment
    ms = molgen.kekulized(R, m) if (m.arom_rings and R.chance(0.3)) else molgen.lowered(m) if (m.quin_rings and R.chance(0.5)) else m
    single, _ = molgen.render_fragment(R, ms, list(range(len(m.atoms))), {}, x['style'])
    # base graph as nx.Graph with shuffled insertion order
    order = list(info['base'].nodes)
    R.shuffle(order)
    return dict(input=s, model=m.to_json(), nfr=info['nfr'], features=sorted(x['feats']),
                uncut='{[#M]}.{#M=%s}' % single, frag_block=info['frag_block'],
                base_nodes=[[n, info['names'][n]] for n in order],
                base_edges=[[a, b, o] for a, b, o in info['base'].edges(data='order')])


def nontrivial(case):
    return case['nfr'] >= 2


def resolve(s, **kw):
    from cgsmiles import MoleculeResolver
    return MoleculeResolver.from_string(s, **kw).resolve_all()


def check_molecule(fine, model_g, what):
    try:
        hg = molgen.heavy_graph(fine)
    except ValueError as e:
        raise Fail('hydrogens:malformed', '%s: %s' % (what, e))
    expect(molgen.same_mol(model_g, hg), 'molecule:mismatch',
           lambda: '%s: expected %s / got %s' % (what, molgen.describe(model_g), molgen.describe(hg)))
    return hg


def oracle(case):
    from cgsmiles import MoleculeResolver
    model_g = molgen.model_graph(case['model'])
    _, fine = sut(resolve, case['input'])
    check_molecule(fine, model_g, 'cut molecule')
    _, fine1 = sut(resolve, case['uncut'])
    try:
        hg1 = molgen.heavy_graph(fine1)
    except ValueError as e:
        raise Fail('hydrogens:malformed', 'uncut: %s' % e)
    expect(molgen.same_mol(hg1, molgen.heavy_graph(fine)), 'molecule:differs-from-uncut',
           lambda: 'uncut %s gives %s' % (case['uncut'], molgen.describe(hg1)))
    # from_graph constructor, node insertion order shuffled
    meta = nx.Graph()
    for n, name in case['base_nodes']:
        meta.add_node(n, fragname=name)
    for a, b, o in case['base_edges']:
        meta.add_edge(a, b, order=o)
    _, fine2 = sut(lambda: MoleculeResolver.from_graph(case['frag_block'], meta).resolve_all())
    check_molecule(fine2, model_g, 'from_graph (node insertion order %r)' % [n for n, _ in case['base_nodes']])
