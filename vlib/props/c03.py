"""C03 - inter-fragment bonds follow the base graph and the bonding-descriptor rules."""
from .. import env  # noqa
from .. import resgen, invariants, molgen
from ..runner import sut, expect
from .c02 import run_steps

ID = 'C03'
RULE = ('cases: ambiguous fragment sets over grammar base graphs under both matching conventions (unlabelled $, '
        'homopolymers via multipliers, several descriptors per atom, surplus descriptors, labels A/B, orders 1-2, '
        'shared-atom descriptors, atomistic and coarse fragments) plus the dedicated-pair strings of C01 (20 % from the classes sulfur-next-to-aromatic, lower-case quinoid, fused aromatic; identical descriptors on one hub atom) and the '
        'multi-level strings of C06 (every level). Oracle (invariant over output + templates): every fine edge '
        'whose end points have disjoint fragid carries bonding=(l,r), joins adjacent coarse nodes, (l,r) is '
        'compatible under an independent re-statement of the rule (kind, label and order digit; label and order '
        'ignored under the label-insensitive convention), the edge order equals the annotated digit (1.5 only '
        'inside an aromatic ring), per base edge the number of bonds is <= its order (== for dedicated pairs, 0 '
        'for order 0), and the bonds can be explained by the descriptors written on the template atoms with no '
        'descriptor used twice (exact assignment search); for the dedicated-pair strings the two atoms are also '
        'compared with the generator\'s own record of which atom was written with which descriptor. non-trivial = at least one inter-fragment bond and an '
        'ambiguous set (fragset) or >=2 cuts; distinct = string + convention')
ASSUMPTIONS = ['templates are read through cgsmiles\' own fragment reader',
               'under legacy=False the rule ignores labels AND order digits (as compatible() implements: only the symbol kind counts)']


def budget(tier):
    if tier == 'thorough':
        return dict(examples=6000, shards=16, procs=16)
    return dict(examples=700, shards=4, procs=4)


def gen(R, tier):
    if R.chance(0.04):
        # single-hydrogen fragments capping aromatic / aliphatic atoms, listed before or after their anchor
        from .c09 import gen_h_caps
        case = gen_h_caps(R, tier)
        case['features'] = sorted(set(case['features']))
        case['constructor'] = 'string'
        return case
    if R.chance(0.25):
        # sulfur next to aromatic rings ('Sc' in the text), descriptors after such letter pairs; lower-case quinoid
        # rings with cut exocyclic double bonds; fused aromatic systems
        case = resgen.gen_cut_string(R, tier, min_frags=2, classes=[c for nm in ('thioaryl', 'thioaryl', 'thioaryl', 'quinoid', 'quinoid', 'fused_aromatic') for c in molgen.MOL_CLASSES if c['name'] == nm])
    else:
        case = resgen.gen_resolvable(R, tier, kinds=('fragset', 'fragset', 'fragset', 'cut', 'levels', 'multicut', 'shared'))
    if case is not None:
        case['constructor'] = R.choice(['string', 'string', 'graph', 'dicts'])
        case['features'] = sorted(set(case['features']) | {'constructor:' + case['constructor']})
    return case


def key(case):
    return case['input'] + '|' + str(case['legacy']) + '|' + case.get('constructor', 'string')


def nontrivial(case):
    return case['kind'] == 'fragset' or case.get('nfr', 1) >= 3


def oracle(case):
    total = [0]

    def step(lv, cg, fine, templates, all_atom):
        total[0] += invariants.check_bonds(cg, fine, templates, case['legacy'], all_atom, case['dedicated'], 'level %d: ' % lv)
        if all_atom and case.get('written_descriptors') is not None:
            # independent of the fragment reader: the generator's record of which atom was WRITTEN with which descriptor
            W = {(nm, pos): ds for nm, pos, ds in case['written_descriptors']}

            def wr(n):
                out = []
                for nm, idx in fine.nodes[n].get('mapping', []) or []:
                    out += W.get((nm, idx), [])
                return out
            for a, b, d in fine.edges(data=True):
                if 'bonding' not in d:
                    continue
                l, r = d['bonding']
                expect((l in wr(a) and r in wr(b)) or (l in wr(b) and r in wr(a)), 'bonds:atom-not-written-with-descriptor',
                       lambda: 'level %d: bond %r-%r formed by %r/%r; the atoms were written with %r and %r' % (lv, a, b, l, r, wr(a), wr(b)))
    run_steps(case, step)
