"""C14 - annotations mean the same however written and reach the graphs unchanged."""
import itertools
from .. import env  # noqa
from .. import gram
from ..runner import sut, expect

ID = 'C14'
RULE = ('[additionally: look-alike free keys, the other level\'s reserved symbol as free key, keywords spelled like verbose reserved names (reserved attribute stays a number), second read after the caller edited the first template in place] '
        'cases: a semantic annotation record (subset of the reserved keys of the level - base graph: q,w; '
        'fragments: w,x - with numeric spellings like +1 -0.25 1e-1 .5, plus 0-2 free keys) rendered in EVERY '
        'arrangement (positional prefix of every admissible length, remaining entries by keyword in every '
        'order; exhaustive for the record) at one of three levels: base-graph node, coarse-fragment node, '
        'atomistic bracket atom (also with H count / charge in the bracket); fragment reused 1-4 times through '
        'a multiplier or repeated nodes. Oracle: attributes parsed by read_cgsmiles equal the record with '
        'defaults (charge 0.0, weight 1.0) exactly, reserved numeric values are float and equal float(spelling), '
        'free keys verbatim strings, the same on the coarse graph returned by the resolver, and weight / chiral '
        '/ free keys present on every fine copy (located through mapping) of the annotated atom, defaults on the '
        'others. evaluations = records x levels; coverage.notes.arrangements = strings executed; non-trivial = '
        '>=2 given keys or reuse count >=2; distinct = record+level+template')
ASSUMPTIONS = ['dialect per level as implemented and pinned by the existing tests: q is reserved only at base-graph '
               'level (docs table says "coarse"); q is not generated at fragment level',
               'free keys avoid reserved/internal attribute names; values over [A-Za-z0-9_.+-]']


def budget(tier):
    if tier == 'thorough':
        return dict(examples=8000, shards=16, procs=16)
    return dict(examples=800, shards=4, procs=4)


def arrangements(reserved, vals, free):
    """all texts for the record: vals: symbol -> spelling (given reserved), free: list of (k, v)"""
    npos_max = 0
    for (s, _, _) in reserved:
        if s in vals:
            npos_max += 1
        else:
            break
    out = []
    for npos in range(npos_max + 1):
        pos_entries = [vals[s] for (s, _, _) in reserved[:npos]]
        kw = [(s, vals[s]) for (s, _, _) in reserved[npos:] if s in vals] + list(free)
        perms = itertools.permutations(kw) if len(kw) <= 4 else [kw, kw[::-1]]
        for perm in perms:
            entries = pos_entries + ['%s=%s' % kv for kv in perm]
            out.append(''.join(';' + e for e in entries))
    return sorted(set(out))


def gen_record(R, reserved):
    vals, given = {}, {}
    mask = R.choice([(1, 1), (1, 1), (1, 0), (0, 1), (1, 1), (0, 0)])
    for (s, full, kind), use in zip(reserved, mask):
        if use:
            if kind == 'float':
                sp = R.choice(gram.NUM_SPELLINGS)
                vals[s] = sp
                given[full] = float(sp)
            else:
                sp = R.choice(['R', 'S'])
                vals[s] = sp
                given[full] = sp
    free = [(k, R.choice(gram.FREE_VALUES)) for k in R.sample(sorted(set(gram.free_keys(reserved))), R.choice([0, 1, 1, 2, 2]))]
    for k, v in free:
        given[k] = v
    collide = []
    if R.chance(0.12):
        # a keyword spelled like the verbose name of a reserved key; what it means is not specified, but the
        # reserved attribute must stay a number
        k = R.choice(['weight', 'charge'] if reserved is gram.BASE_RESERVED else ['weight'])
        free = free + [(k, R.choice(['44', '16', '2']))]
        collide.append(k)
    return vals, free, given, collide


ATOM_TOKENS = [('C', 'C'), ('O', 'O'), ('N', 'N'), ('[CH2]', '[CH2'), ('[NH+]', '[NH+'), ('S', 'S'), ('[Si]', '[Si'), ('c', None)]


def gen(R, tier):
    level = R.choice(['base', 'base', 'coarse', 'atom', 'atom'])
    reserved = gram.BASE_RESERVED if level == 'base' else gram.FRAG_RESERVED
    vals, free, given, collide = gen_record(R, reserved)
    arr = arrangements(reserved, vals, free)
    reuse = R.choice([1, 1, 2, 3, 4])
    if level == 'base':
        # annotated node somewhere in a small chain/branch, other nodes plain
        pre = R.choice(['', '[#B]', '[#B]([#C])', '[#B]1[#C]'])
        post = R.choice(['', '[#C]', '=[#C]', '([#C])[#B]', '|3', '|2=[#C]', '([#B])|2', '([#B][#C])|3[#C]'])
        if pre == '[#B]1[#C]':
            post = '[#C]1'
        template = '{%s[#A@]%s}' % (pre, post)
        frags = '{#A=[$]CC[$],#B=[$]O[$],#C=[$]N[$][$]}'
        variants = [template.replace('@', a) for a in arr]
        idx = {'': 0, '[#B]': 1, '[#B]([#C])': 2, '[#B]1[#C]': 2}[pre]
        # every copy made by the multiplication operator carries the annotation
        copies = {'|3': [0, 1, 2], '|2=[#C]': [0, 1], '([#B])|2': [0, 2], '([#B][#C])|3[#C]': [0, 3, 6]}.get(post, [0])
        case = dict(level=level, node=idx, nodes=[idx + c for c in copies], frags=frags)
    elif level == 'coarse':
        n = R.randint(1, 4)
        k = R.randrange(n)
        names = [R.choice(['a', 'b', 'SC1']) for _ in range(n)]
        toks = ['[#%s%s]' % (nm, '@' if i == k else '') for i, nm in enumerate(names)]
        shape = R.choice(['chain', 'branch']) if n >= 3 else 'chain'
        if shape == 'branch':
            body = toks[0] + '(' + toks[1] + ')' + ''.join(toks[2:])
        else:
            body = ''.join(toks)
        template = '[$]%s[$]' % body
        variants = [template.replace('@', a) for a in arr]
        case = dict(level=level, node=k, natoms=n, names=names)
    elif R.chance(0.2):
        # an explicitly written, annotated hydrogen
        template, k = R.choice([('[$]C([H@])[$]', 1), ('[$]N([H@])C[$]', 1), ('[$]C([H@])([H])O[$]', 1),
                                ('[$][C@]([H])C[$]', 0), ('[$]C[N@]([H])[$]', 1)])
        variants = [template.replace('@', a) for a in arr]
        case = dict(level=level, node=k, natoms=2, explicit_h=True)
    elif R.chance(0.15):
        # annotated ring atom after an aliphatic/aromatic letter pair and ring digits
        template, k = R.choice([('[$]CSc1cc[cH@]cc1', 5), ('[$]Sc1ccc([cH@]c1)Cl', 5), ('[$]NCc1c[cH@]ncc1', 4),
                                ('ClCC(Br)[CH@]([$])Cl', 4)])
        variants = [template.replace('@', a) for a in arr]
        case = dict(level=level, node=k, natoms=6)
    else:
        n = R.randint(1, 4)
        k = R.randrange(n)
        elems = [R.choice(ATOM_TOKENS[:7]) for _ in range(n)]
        toks = []
        for i, (plain, br) in enumerate(elems):
            if i == k:
                toks.append((br if br.startswith('[') else '[' + br) + '@]')
            else:
                toks.append(plain)
        shape = R.choice(['chain', 'branch']) if n >= 3 else 'chain'
        if shape == 'branch':
            body = toks[0] + '(' + toks[1] + ')' + ''.join(toks[2:])
        else:
            body = ''.join(toks)
        template = '[$]%s[$]' % body
        variants = [template.replace('@', a) for a in arr]
        case = dict(level=level, node=k, natoms=n)
    how = R.choice(['mult', 'written'])
    base = '{[#X]|%d}' % reuse if how == 'mult' else '{' + '[#X]' * reuse + '}'
    case.update(input=variants[-1] if variants else template, template=template, variants=variants, given=given,
                reuse=reuse, base=base, collide=collide,
                features=sorted({'level:' + level, 'keys:%d' % len(given), 'reuse:%d' % reuse} |
                                ({'free_key'} if free else set()) | ({'keyword_spelled_like_verbose_reserved_name'} if collide else set()) |
                                ({'numeric:' + ('plain' if v.lstrip('+-').replace('.', '', 1).isdigit() else 'exp') for v in vals.values()
                                  if v not in ('R', 'S')})))
    return case


def measure(case):
    return {'arrangements': len(case['variants'])}


def nontrivial(case):
    return len(case['given']) >= 2 or case['reuse'] >= 2


def key(case):
    return case['level'] + '|' + case['template'] + '|' + repr(sorted(case['given'].items())) + '|' + case['base']


NUMBER = object()


def _check_attrs(d, want, what, exact):
    for k, v in want.items():
        expect(k in d, 'annotation:missing', lambda: '%s: key %r missing in %r' % (what, k, d))
        if v is NUMBER:
            expect(isinstance(d[k], (int, float)) and not isinstance(d[k], bool), 'annotation:reserved-not-a-number',
                   lambda: '%s: reserved key %r = %r (%s)' % (what, k, d[k], type(d[k]).__name__))
            continue
        expect(d[k] == v and type(d[k]) is type(v), 'annotation:value',
               lambda: '%s: %r = %r (%s), expected %r (%s)' % (what, k, d[k], type(d[k]).__name__, v, type(v).__name__))
    if exact:
        expect(set(d) == set(want), 'annotation:extra-keys', lambda: '%s: attributes %r, expected %r' % (what, d, want))


def oracle(case):
    from cgsmiles import read_cgsmiles, MoleculeResolver
    from cgsmiles.read_fragments import read_fragments
    given = case['given']
    level = case['level']
    for text in case['variants']:
        if level == 'base':
            want = {'charge': 0.0, 'weight': 1.0}
            want.update(given)
            want.update({k: NUMBER for k in case.get('collide', [])})
            g = sut(read_cgsmiles, text)
            w2 = dict(want)
            w2['fragname'] = 'A'
            annotated = case.get('nodes', [case['node']])
            for k in annotated:
                expect(k in g, 'annotation:missing', lambda: 'read_cgsmiles(%s) has no node %d' % (text, k))
                _check_attrs(dict(g.nodes[k]), w2, 'read_cgsmiles(%s) node %d' % (text, k), True)
            for n in g.nodes:
                if n not in annotated:
                    dd = g.nodes[n]
                    expect(dd.get('charge') == 0.0 and dd.get('weight') == 1.0 and set(dd) == {'fragname', 'charge', 'weight'},
                           'annotation:leak', lambda: 'read_cgsmiles(%s): plain node %d has %r' % (text, n, dict(dd)))
            cg, fine = sut(lambda: MoleculeResolver.from_string(text + '.' + case['frags']).resolve_all())
            for k in annotated:
                _check_attrs(dict(cg.nodes[k]), want, 'coarse graph of %s node %d' % (text, k), False)
            # the base graph handed over as a hand-made graph: plain nodes carry a fragname only
            g2 = sut(read_cgsmiles, text)
            for n in g2.nodes:
                if n not in annotated:
                    for key_ in ('charge', 'weight'):
                        g2.nodes[n].pop(key_, None)
            cg2, _f2 = sut(lambda: MoleculeResolver.from_graph(case['frags'], g2).resolve_all())
            for k in annotated:
                _check_attrs(dict(cg2.nodes[k]), want, 'from_graph(hand-made graph of %s) node %d' % (text, k), False)
            continue
        coarse = (level == 'coarse')
        full = case['base'] + '.{#X=' + text + '}'
        want = {'weight': 1.0}
        want.update(given)
        want.update({k: NUMBER for k in case.get('collide', [])})
        # the template itself
        tmpl = sut(read_fragments, '{#X=' + text + '}', all_atom=not coarse)['X']
        _check_attrs(dict(tmpl.nodes[case['node']]), want, 'read_fragments(%s) node %d' % (text, case['node']), False)
        # the caller re-weights / strips the returned template in place; a later read of the same text is unaffected
        for n in tmpl.nodes:
            tmpl.nodes[n]['weight'] = 99.0
            for k in list(tmpl.nodes[n]):
                if k in given and k not in ('weight',):
                    del tmpl.nodes[n][k]
        tmpl2 = sut(read_fragments, '{#X=' + text + '}', all_atom=not coarse)['X']
        _check_attrs(dict(tmpl2.nodes[case['node']]), want, 'second read_fragments(%s) after the caller edited the first result, node %d' % (text, case['node']), False)
        cg, fine = sut(lambda: MoleculeResolver.from_string(full, last_all_atom=not coarse).resolve_all())
        copies = [n for n, d in fine.nodes(data=True) if ('X', case['node']) in [tuple(m) for m in d.get('mapping', [])]]
        expect(len(copies) == case['reuse'], 'annotation:copies',
               lambda: '%s: %d copies of the annotated atom, expected %d' % (full, len(copies), case['reuse']))
        for n in copies:
            _check_attrs(dict(fine.nodes[n]), want, '%s fine node %d' % (full, n), False)
        for n, d in fine.nodes(data=True):
            if n in copies or (d.get('element') == 'H' and 'mapping' not in d):
                continue    # completed hydrogens copy the weight of their atom (C09)
            expect(d.get('weight') == 1 and 'chiral' not in d and not (set(given) - {'weight', 'chiral'}) & set(d),
                   'annotation:leak', lambda: '%s: other node %d carries %r' % (full, n, {k: d[k] for k in d if k in given or k == 'weight'}))
        # the coarse nodes keep defaults
        for n, d in cg.nodes(data=True):
            expect(d.get('charge') == 0.0 and d.get('weight') == 1.0, 'annotation:coarse-defaults',
                   lambda: '%s: coarse node %d has %r' % (full, n, {k: v for k, v in d.items() if k != 'graph'}))
