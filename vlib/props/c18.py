"""C18 - the RDKit bridge keeps chemistry and puts coordinates on the right atoms."""
import math
import networkx as nx
from .. import env  # noqa
from .. import molgen
from ..runner import sut, expect, Fail, SutError, note
from .c01 import resolve

ID = 'C18'
RULE = ('cases: RDKit-sane molecule models (C N O S F Cl Br, charged centres, rings, benzene/pyridine; every '
        'non-template ring contains a saturated carbon; S divalent) resolved from single- and multi-fragment '
        'strings incl. shared atoms and weight annotations (hydrogens interleaved by the renumbering, node '
        'iteration order != key order), additionally with randomly permuted node insertion order; drawn atom '
        'coordinates and translation vectors. Oracle: (a) rdkit_to_networkx(networkx_to_rdkit(G)) is isomorphic '
        'to G/model on element, charge, bond order (1.5 aromatic) and hydrogens per heavy atom, without a '
        'conformer and with one (EmbedMolecule(randomSeed=drawn)): every node then has a finite position equal '
        'to the conformer position of its atom index; an independent RDKit construction of the model decides '
        'whether RDKit accepts the molecule at all; (b) after embed_3d_via_rdkit every node has a finite position '
        'and every bonded pair lies within 1.4 x the sum of covalent radii (a quarter of the bonds, at least two, must fail in each of three embeddings while an '
        'independent embedding of the model passes, otherwise inconclusive); (c) forward_map_molecule puts every '
        'bead at sum(w x)/sum(w) over exactly its member atoms (1e-9) and translating all atoms by t translates '
        'every bead by t (10 %: polymers in which one weight-annotated fragment occurs several times, clause c only). Embedding failures of RDKit are counted as inconclusive. non-trivial = >=2 fragments '
        '(iteration order differs from key order) or a non-unit weight; distinct = string + node order')
ASSUMPTIONS = ['RDKit and pysmiles agree on aromaticity for the generated molecules (restriction 8 in DESIGN.md)',
               'RDKit embedding is stochastic; only a coarse geometric predicate is asserted']

RADII = {'H': 0.31, 'C': 0.76, 'N': 0.71, 'O': 0.66, 'F': 0.57, 'P': 1.07, 'S': 1.05, 'Cl': 1.02, 'Br': 1.20}
ELEMS_CHAIN = ['C'] * 6 + ['N', 'N', 'O', 'O', 'S']
CLASSES = [
    dict(name='tiny', max_heavy=3, min_heavy=1, p_ring=0.2, p_arom=0.0, p_multi=0.4, p_charge=0.2, hyper=False),
    dict(name='chain', max_heavy=8, min_heavy=3, p_ring=0.1, p_arom=0.0, p_multi=0.5, p_charge=0.3, hyper=False),
    dict(name='cyclic', max_heavy=9, min_heavy=4, p_ring=0.8, p_arom=0.0, p_multi=0.3, p_charge=0.2, hyper=False),
    dict(name='aromatic', max_heavy=9, min_heavy=6, p_ring=0.2, p_arom=0.9, p_multi=0.3, p_charge=0.2, hyper=False),
]


def budget(tier):
    if tier == 'thorough':
        return dict(examples=2000, shards=16, procs=16)
    return dict(examples=400, shards=4, procs=4)


def rdkit_sane(m):
    if any(a['element'] == 'P' for a in m.atoms):
        return False
    for i, a in enumerate(m.atoms):
        if a['element'] == 'S' and not a['aromatic'] and m.bondsum(i) > 2:
            return False
    g = m.graph()
    for cyc in nx.minimum_cycle_basis(g):
        if all(m.atoms[i]['aromatic'] for i in cyc):
            continue
        if not any(m.atoms[i]['element'] == 'C' and not m.atoms[i]['aromatic'] and not m.atoms[i]['charge']
                   and all(m.order(i, j) == 1 for j in m.nbrs(i)) for i in cyc):
            return False
    return True


MONOMERS = [['[>]', 'C', 'C', 'O', '[<]'], ['[>]', 'C', '(', 'C', ')', 'C', '[<]'], ['[$]', 'C', 'C', '[$]'],
            ['[>]', 'C', 'C', '(', 'c', '1', 'c', 'c', 'c', 'c', 'c', '1', ')', '[<]'], ['[>]', 'N', 'C', 'C', '(', '=', 'O', ')', '[<]'],
            ['[$]', 'C', 'S', 'C', '[$]']]


def gen_polymer(R, tier):
    """the SAME fragment several times in one molecule (multiplier), atoms annotated with weights: copies at
    the chain ends are completed with other hydrogens than inner copies (bead = weighted average, clause c only)"""
    names = ['A', 'B']
    defs = []
    for nm in names:
        toks = list(R.choice(MONOMERS))
        idx = [i for i, t in enumerate(toks) if t.isalpha()]
        for i in R.sample(idx, R.randint(1, min(2, len(idx)))):
            toks[i] = '[%s;%s]' % (toks[i], R.choice(['0.5', '2', '0.25', '0', '3']))
        defs.append('#%s=%s' % (nm, ''.join(toks)))
    n, k = R.randint(2, 6), R.randint(1, 3)
    base = R.choice(['{[#A]|%d}' % n, '{[#A]|%d[#B]|%d}' % (n, k), '{[#B][#A]|%d[#B]}' % n, '{[#A]([#B])|%d}' % n])
    used = [d for d in defs if '[#%s]' % d[1] in base]
    return dict(kind='polymer', input=base + '.{' + ','.join(used) + '}', nfr=n, weights=True, perm_seed=R.randint(0, 10 ** 6),
                coords_seed=R.randint(0, 10 ** 6), shift=[R.uniform(-20, 20), R.uniform(-20, 20), R.uniform(-20, 20)],
                features=['polymer_repeated_weighted_fragment'])


def gen_biaryl(R):
    """two aromatic six rings joined by a (non-aromatic) single bond, a few substituents"""
    m = molgen.Mol()
    rings = []
    for _ in range(2):
        els = ['C'] * 6
        if R.chance(0.3):
            els[R.randint(1, 5)] = 'N'
        ids = [m.add_atom(e, aromatic=True) for e in els]
        for a in range(6):
            m.add_bond(ids[a], ids[(a + 1) % 6], 1.5)
        m.arom_rings.append(ids)
        rings.append(ids)
    m.add_bond(rings[0][0], rings[1][0], 1)
    for _ in range(R.randint(0, 3)):
        cands = [i for i in range(len(m.atoms)) if m.free(i) >= 1 and m.atoms[i]['element'] == 'C']
        x = m.add_atom(R.choice(['C', 'C', 'N', 'O', 'F', 'Cl']))
        m.add_bond(R.choice(cands), x, 1)
    return m


def gen(R, tier):
    if R.chance(0.1):
        return gen_polymer(R, tier)
    c = dict(R.choice(CLASSES))
    cname = c.pop('name')
    m = molgen.gen_mol(R, **c)
    if R.chance(0.08):
        m, cname = gen_biaryl(R), 'biaryl'
    m.atoms = [dict(a) for a in m.atoms]
    if not rdkit_sane(m):
        return None
    nfr_t = R.choice([1, 2, 2, 3, 4])
    owner = molgen.partition(R, m, max_frags=nfr_t, min_frags=nfr_t)
    feats = {'mol:' + cname}
    zero_edges = ()
    if R.chance(0.2):
        # a mixture: a second, unbonded molecule joined to the first by an order-0 edge of the base graph
        c2 = dict(R.choice(CLASSES[:2]))
        c2.pop('name')
        m2 = molgen.gen_mol(R, **c2)
        if not rdkit_sane(m2):
            return None
        k2 = R.choice([1, 1, 2])
        owner2 = molgen.partition(R, m2, max_frags=k2, min_frags=k2)
        nf1 = max(owner) + 1
        m, off = molgen.disjoint_union(m, m2)
        owner = owner + [nf1 + o for o in owner2]
        zero_edges = [(R.randrange(nf1), nf1 + R.randrange(max(owner2) + 1))]
        feats.add('mixture_of_two_molecules')
    shared = R.chance(0.25) and max(owner) >= 1 and not zero_edges
    weights = {}
    if R.chance(0.5):
        for i in range(len(m.atoms)):
            if R.chance(0.4):
                weights[i] = R.choice(['0.5', '2', '0.25', '3', '0', '0'])
    if shared:
        s, info = molgen.build_shared(R, m, owner, share=0.7, style=molgen.style_draw(R), feats=feats)
        weights = {}
    else:
        s, info = molgen.build_cgsmiles(R, m, owner, style=molgen.style_draw(R), feats=feats,
                                        annot={i: w for i, w in weights.items()} or None, zero_edges=zero_edges)
    if s is None:
        return None
    if shared and info['nshared']:
        feats.add('shared_atoms')
    if weights:
        feats.add('weights')
    nfr = info['nfr']
    feats.add('frags:%d' % min(nfr, 3))
    return dict(input=s, model=m.to_json(), nfr=nfr, features=sorted(feats), perm_seed=R.randint(0, 10 ** 6),
                embed_seed=R.randint(1, 10 ** 6), weights=bool(weights),
                coords_seed=R.randint(0, 10 ** 6), shift=[R.uniform(-20, 20), R.uniform(-20, 20), R.uniform(-20, 20)])


def nontrivial(case):
    return case['nfr'] >= 2 or case['weights']


def key(case):
    return case['input'] + '|%d' % case['perm_seed']


def model_rdkit(mj):
    """independent RDKit construction of the model incl. hydrogens; None if RDKit rejects it"""
    from rdkit import Chem
    bt = {1: Chem.BondType.SINGLE, 2: Chem.BondType.DOUBLE, 3: Chem.BondType.TRIPLE, 1.5: Chem.BondType.AROMATIC}
    mol = Chem.RWMol()
    for (e, c, ar), h in zip(mj['atoms'], mj['h']):
        a = Chem.Atom(e)
        a.SetFormalCharge(c)
        mol.AddAtom(a)
    for i, j, o in mj['bonds']:
        mol.AddBond(i, j, bt[o])
    n = len(mj['atoms'])
    for i, h in enumerate(mj['h']):
        for _ in range(h):
            k = mol.AddAtom(Chem.Atom('H'))
            mol.AddBond(i, k, Chem.BondType.SINGLE)
    try:
        mol = mol.GetMol()
        Chem.SanitizeMol(mol)
    except Exception:
        return None
    return mol


def permuted(g, seed):
    import random
    order = list(g.nodes)
    random.Random(seed).shuffle(order)
    h = nx.Graph()
    for n in order:
        h.add_node(n, **g.nodes[n])
    edges = list(g.edges(data=True))
    random.Random(seed + 1).shuffle(edges)
    for a, b, d in edges:
        h.add_edge(a, b, **d)
    return h


def back_heavy(back):
    """heavy-atom graph of a graph returned by rdkit_to_networkx: hydrogens = H neighbours + hcount"""
    g = nx.Graph()
    for n, d in back.nodes(data=True):
        if d.get('element') != 'H':
            g.add_node(n, element=d.get('element'), charge=d.get('charge', 0), h=int(d.get('hcount', 0)))
    for a, b, d in back.edges(data=True):
        ea, eb = back.nodes[a].get('element'), back.nodes[b].get('element')
        if ea != 'H' and eb != 'H':
            g.add_edge(a, b, order=d.get('order'))
        elif ea == 'H' and eb == 'H':
            raise Fail('rdkit:roundtrip', 'H-H bond after round trip')
        else:
            g.nodes[a if ea != 'H' else b]['h'] += 1
    return g


def oracle(case):
    import numpy as np
    import random
    from rdkit import Chem, RDLogger
    from rdkit.Chem import AllChem
    from cgsmiles.rdkit import rdkit_to_networkx, networkx_to_rdkit, embed_3d_via_rdkit
    from cgsmiles.coordinates import forward_map_molecule
    RDLogger.DisableLog('rdApp.*')
    if case.get('kind') == 'polymer':
        cg, fine = sut(resolve, case['input'])
        check_forward_map(case, cg, [('resolved', fine), ('permuted node order', permuted(fine, case['perm_seed']))])
        check_forward_map_from_graph(case)
        return
    model_g = molgen.model_graph(case['model'])
    ref = model_rdkit(case['model'])
    if ref is None:
        note('rdkit_rejects_model')
        return
    # RDKit re-perceives aromaticity when it sanitises a molecule; where its own reading of the
    # independently built model differs from the model (fused small rings it calls aromatic),
    # the molecule is outside the domain in which a round trip can preserve bond orders
    refg = nx.Graph()
    for a in ref.GetAtoms():
        if a.GetSymbol() != 'H':
            refg.add_node(a.GetIdx(), element=a.GetSymbol(), charge=a.GetFormalCharge(),
                          h=sum(1 for nb in a.GetNeighbors() if nb.GetSymbol() == 'H') + a.GetTotalNumHs())
    for b in ref.GetBonds():
        i, j = b.GetBeginAtomIdx(), b.GetEndAtomIdx()
        if i in refg and j in refg:
            o = b.GetBondTypeAsDouble()
            refg.add_edge(i, j, order=o if o == 1.5 else int(o))
    if not molgen.same_mol(model_g, refg):
        note('rdkit_reads_model_differently_out_of_domain')
        return
    cg, fine = sut(resolve, case['input'])
    graphs = [('resolved', fine), ('permuted node order', permuted(fine, case['perm_seed']))]
    # (a) round trip
    for what, g in graphs:
        mol = sut(networkx_to_rdkit, g)
        expect(mol.GetNumAtoms() == len(g), 'rdkit:roundtrip', lambda: '%s: %d atoms for %d nodes' % (what, mol.GetNumAtoms(), len(g)))
        back = sut(rdkit_to_networkx, mol)
        hg = back_heavy(back)
        expect(molgen.same_mol(model_g, hg), 'rdkit:roundtrip',
               lambda: '%s: expected %s / after round trip %s' % (what, molgen.describe(model_g), molgen.describe(hg)))
        # with a conformer
        mol2 = Chem.Mol(mol)
        if AllChem.EmbedMolecule(mol2, randomSeed=case['embed_seed']) != 0:
            note('embedding_failed_inconclusive')
        else:
            back2 = sut(rdkit_to_networkx, mol2)
            conf = mol2.GetConformer()
            hg2 = back_heavy(back2)
            expect(molgen.same_mol(model_g, hg2), 'rdkit:roundtrip-with-conformer',
                   lambda: '%s: with conformer %s' % (what, molgen.describe(hg2)))
            for i in range(mol2.GetNumAtoms()):
                p = back2.nodes[i].get('position')
                q = conf.GetAtomPosition(i)
                expect(p is not None and np.all(np.isfinite(p)) and np.allclose(p, [q.x, q.y, q.z], atol=1e-9),
                       'rdkit:conformer-position', lambda: '%s: node %d has position %r, conformer has %r' % (what, i, p, (q.x, q.y, q.z)))
            note('conformer_roundtrips')
    # (b) embedding.  RDKit's embedding is stochastic and occasionally leaves a strained geometry; a
    # wrong assignment of coordinates to atoms is systematic.  The predicate must fail in every one of
    # three attempts AND an embedding of the independently built model must satisfy it, otherwise the
    # case is inconclusive.
    def long_bonds(g2):
        bad = []
        for a, b in g2.edges:
            d = float(np.linalg.norm(g2.nodes[a]['position'] - g2.nodes[b]['position']))
            lim = 1.4 * (RADII[g2.nodes[a]['element']] + RADII[g2.nodes[b]['element']])
            if d > lim:
                bad.append((a, b, round(d, 2), round(lim, 2)))
        return bad

    def reference_ok():
        for k in range(3):
            mref = Chem.Mol(ref)
            if AllChem.EmbedMolecule(mref, randomSeed=case['embed_seed'] + k) != 0:
                continue
            try:
                AllChem.UFFOptimizeMolecule(mref)
            except Exception:
                continue
            conf = mref.GetConformer()
            ok = True
            for bnd in mref.GetBonds():
                i, j = bnd.GetBeginAtomIdx(), bnd.GetEndAtomIdx()
                pi, pj = conf.GetAtomPosition(i), conf.GetAtomPosition(j)
                d = math.dist((pi.x, pi.y, pi.z), (pj.x, pj.y, pj.z))
                if d > 1.4 * (RADII[mref.GetAtomWithIdx(i).GetSymbol()] + RADII[mref.GetAtomWithIdx(j).GetSymbol()]):
                    ok = False
            if ok:
                return True
        return False
    for what, g in graphs:
        worst = None
        for attempt in range(3):
            g2 = g.copy()
            try:
                sut(embed_3d_via_rdkit, g2)
            except SutError as e:
                if e.type in ('ValueError', 'RuntimeError') and ('onformer' in e.msg or 'mbed' in e.msg):
                    note('embedding_failed_inconclusive')
                    worst = None
                    break
                raise
            for n in g2.nodes:
                p = g2.nodes[n].get('position')
                expect(p is not None and len(p) == 3 and np.all(np.isfinite(p)), 'embed:position-missing',
                       lambda: '%s: node %r has position %r' % (what, n, p))
            bad = long_bonds(g2)
            # coordinates on the wrong atoms stretch most bonds; one or two long bonds are a strained geometry of
            # RDKit's stochastic embedding (small fused rings), which says nothing about the property
            if len(bad) < max(2, 0.25 * g2.number_of_edges()):
                if bad:
                    note('strained_embedding_inconclusive')
                else:
                    note('embeddings_checked')
                worst = None
                break
            worst = (bad, g2.number_of_edges())
        if worst is not None:
            if not reference_ok():
                note('strained_embedding_inconclusive')
                continue
            bad, ne = worst
            raise Fail('embed:bonded-atoms-far-apart',
                       '%s: in 3 of 3 embeddings bonds are longer than 1.4 x covalent radii (last: %d of %d, e.g. %r) while an '
                       'embedding of the same molecule built independently has none: coordinates are on the wrong atoms' % (
                           what, len(bad), ne, bad[:3]))
    # (b') the combined entry point: embed the atoms, then map the beads
    from cgsmiles.coordinates import embedd_cg_molecule_via_rdkit
    cg4, g4 = cg.copy(), fine.copy()
    try:
        with np.errstate(all='ignore'):
            sut(embedd_cg_molecule_via_rdkit, cg4, g4)
    except SutError as e:
        if not (e.type in ('ValueError', 'RuntimeError') and ('onformer' in e.msg or 'mbed' in e.msg)):
            raise
        note('embedding_failed_inconclusive')
    else:
        for k in cg4.nodes:
            members = list(cg.nodes[k]['graph'].nodes)
            ws = [g4.nodes[n].get('weight', 1) for n in members]
            if sum(ws) == 0:
                continue
            want = sum(g4.nodes[n]['position'] * w for n, w in zip(members, ws)) / sum(ws)
            p = cg4.nodes[k].get('position')
            expect(p is not None and np.allclose(p, want, atol=1e-9), 'map:bead-not-weighted-average',
                   lambda: 'embedd_cg_molecule_via_rdkit: bead %r at %r, weighted average of its atoms is %r' % (k, p, want))
    check_forward_map(case, cg, graphs)
    check_forward_map_from_graph(case)


def check_forward_map(case, cg, graphs):
    import numpy as np
    import random
    from cgsmiles.coordinates import forward_map_molecule
    # (c) forward mapping
    rnd = random.Random(case['coords_seed'])
    t = np.array(case['shift'])
    for what, g in graphs:
        g3 = g.copy()
        for n in g3.nodes:
            g3.nodes[n]['position'] = np.array([rnd.uniform(-50, 50), rnd.uniform(-50, 50), rnd.uniform(-50, 50)])
        cgc = cg.copy()
        with np.errstate(all='ignore'):
            sut(forward_map_molecule, cgc, g3)
        first = {}
        for k in cgc.nodes:
            fg = cg.nodes[k].get('graph')
            members = list(fg.nodes)
            ws = [g3.nodes[n].get('weight', 1) for n in members]
            p = cgc.nodes[k].get('position')
            expect(p is not None and np.all(np.isfinite(p)) or sum(ws) == 0, 'map:bead-position',
                   lambda: '%s: bead %r has position %r' % (what, k, p))
            if sum(ws) == 0:
                continue
            want = sum(g3.nodes[n]['position'] * w for n, w in zip(members, ws)) / sum(ws)
            expect(np.allclose(p, want, atol=1e-9), 'map:bead-not-weighted-average',
                   lambda: '%s: bead %r at %r, weighted average of its %d atoms (weights %r) is %r' % (what, k, p, len(members), ws, want))
            first[k] = np.array(p)
        for n in g3.nodes:
            g3.nodes[n]['position'] = g3.nodes[n]['position'] + t
        with np.errstate(all='ignore'):
            sut(forward_map_molecule, cgc, g3)
        for k, p0 in first.items():
            p1 = cgc.nodes[k]['position']
            expect(np.allclose(p1 - p0, t, atol=1e-7), 'map:not-translation-equivariant',
                   lambda: '%s: atoms moved by %r, bead %r moved by %r' % (what, t.tolist(), k, (p1 - p0).tolist()))
        # a translation that puts one atom of a bead exactly at the origin
        if first:
            kb = sorted(first, key=repr)[rnd.randrange(len(first))]
            members = list(cg.nodes[kb]['graph'].nodes)
            t0 = -g3.nodes[members[rnd.randrange(len(members))]]['position']
            before = {k: np.array(cgc.nodes[k]['position']) for k in first}
            for n in g3.nodes:
                g3.nodes[n]['position'] = g3.nodes[n]['position'] + t0
            with np.errstate(all='ignore'):
                sut(forward_map_molecule, cgc, g3)
            for k, p0 in before.items():
                p1 = cgc.nodes[k]['position']
                expect(np.allclose(p1 - p0, t0, atol=1e-7), 'map:not-translation-equivariant',
                       lambda: '%s: atoms moved by %r (one atom of bead %r now at the origin), bead %r moved by %r' % (
                           what, t0.tolist(), kb, k, (p1 - p0).tolist()))


def check_forward_map_from_graph(case):
    """the same molecule resolved through from_graph with the base-graph nodes inserted in shuffled order (the
    coarse graph then iterates its beads in another order than their keys)"""
    import random
    import re
    from cgsmiles import MoleculeResolver, read_cgsmiles
    blocks = re.findall(r"\{[^\}]+\}", case['input'])
    base = sut(read_cgsmiles, blocks[0])
    order = list(base.nodes)
    random.Random(case['perm_seed']).shuffle(order)
    meta = nx.Graph()
    for n in order:
        meta.add_node(n, **base.nodes[n])
    edges = list(base.edges(data=True))
    random.Random(case['perm_seed'] + 7).shuffle(edges)
    for a, b, d in edges:
        meta.add_edge(a, b, **d)
    cg2, fine2 = sut(lambda: MoleculeResolver.from_graph('.'.join(blocks[1:]), meta).resolve_all())
    check_forward_map(case, cg2, [('from_graph with base nodes inserted as %r' % order, fine2)])
