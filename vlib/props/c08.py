"""C08 - fragment definitions and complete strings round-trip through the writer."""
from collections import Counter, defaultdict
import networkx as nx
from .. import env  # noqa
from .. import molgen, gram, resgen
from ..runner import sut, expect, Fail
from .c01 import check_molecule, resolve

ID = 'C08'
RULE = ('[additionally: all-atom fragments holding two molecules separated by a dot (aromatic on both sides), coarse fragments that are chains of 1050-1500 beads written under the recursion head-room of a user, dense coarse graphs with >= 10 open ring bonds, 25 % sulfur-next-to-aromatic molecules] '
        'cases: (a) atomistic fragment sets: 1-3 molecules from the molecule generator with 0-3 descriptors per atom '
        '(four kinds, labels, orders 0-3, any order in the list), read by read_fragments, written by '
        'write_cgsmiles_fragments and read again; (b) coarse fragment sets from the grammar AST (branches, rings, '
        'bond orders) with descriptors, written with smiles_format=False; (c) complete strings (C01 strings and '
        'multi-level strings): write_cgsmiles(resolver.molecule, resolver.fragment_dicts) is resolved again. '
        'Oracle: per fragment the re-read graph is isomorphic to the original on element / node name, charge, '
        'aromatic flag, bond order and the multiset of descriptors (kind+label+order) per atom; the re-written '
        'complete string resolves to a fine graph isomorphic to that of the source string (and to the model). '
        'non-trivial = an atom with >=2 descriptors or a descriptor with a bond order != 1, or a coarse level; '
        'distinct = string')
ASSUMPTIONS = ['annotations and stereo marks are not asserted (the property does not list them; the writer documents dropping stereo)',
               'fragment names and node names are alphanumeric']

SYM = {0: '.', 1: '', 2: '=', 3: '#'}


def budget(tier):
    if tier == 'thorough':
        return dict(examples=4000, shards=16, procs=16)
    return dict(examples=600, shards=4, procs=4)


def rand_desc(R, max_order):
    o = R.choice([1, 1, 1, 2, 3, 0])
    o = o if o <= max_order else 1
    return SYM[o] + '[' + R.choice(['$', '$', '>', '<', '!']) + R.choice(['', '', 'a', 'A', 'B1', 'x']) + ']'


def gen_atomistic(R, tier):
    nfr = R.choice([1, 2, 3])
    defs = []
    feats = {'atomistic'}
    for f in range(nfr):
        # (a quarter of the molecules: sulfur next to aromatic rings, 'Sc' / 'Sn' letter pairs in the text)
        m, cname = molgen.gen_mol_class(R, classes=[c for c in molgen.MOL_CLASSES if c['name'] == 'thioaryl'] if R.chance(0.25) else None)
        d = defaultdict(list)
        dens = R.choice([0.2, 0.5])
        for i in range(len(m.atoms)):
            if R.chance(dens):
                for _ in range(R.choice([1, 1, 2, 3])):
                    d[i].append(rand_desc(R, 3))
        if not d:
            d[0].append(rand_desc(R, 3))
        if any(len(v) >= 2 for v in d.values()):
            feats.add('several_per_atom')
        if any(x[0] != '[' for v in d.values() for x in v):
            feats.add('desc_with_order')
        if any(x[0] == '.' for v in d.values() for x in v):
            feats.add('desc_order0')
        text, _ = molgen.render_fragment(R, m, list(range(len(m.atoms))), d, molgen.style_draw(R))
        defs.append('#F%d=%s' % (f, text))
    return dict(input='{' + ','.join(defs) + '}', mode='fragments', all_atom=True, features=sorted(feats))


def gen_coarse(R, tier):
    from .c13 import render_coarse
    nfr = R.choice([1, 2])
    defs = []
    feats = {'coarse'}
    for f in range(nfr):
        ast = gram.gen_ast(R, names=('A', 'B', 'SC1', 'TC5'), max_nodes=R.choice([3, 6, 10, 14]), min_nodes=1,
                           p_branch=0.3, p_ring=R.choice([0.25, 0.25, 0.6]), p_sym=R.choice([0.3, 0.6]), max_depth=3,
                           orders=(1, 2, 3, 0), max_rings_per_node=4, max_open=4)
        try:
            gram.interpret(ast)
        except gram.Invalid:
            return None
        # coarse fragments must be connected through bonds to be written as one graph
        tokens = []
        render_coarse(R, ast, tokens, [0], R.choice([0.3, 0.6]))
        if not any(t[0] == 'desc' for t in tokens):
            first = [i for i, t in enumerate(tokens) if t[0] == 'atom'][0]
            tokens.insert(first + 1, ('desc', '[$]', (0, '[$]')))
        text = ''.join(t[1] for t in tokens)
        for g in gram.features(ast):
            if g in ('ring', 'branch', 'nondefault_order'):
                feats.add('coarse:' + g)
        defs.append('#G%d=%s' % (f, text))
    return dict(input='{' + ','.join(defs) + '}', mode='fragments', all_atom=False, features=sorted(feats))


def gen_coarse_graph(R, tier):
    """coarse fragments from random (also dense) graphs written by the own base-graph writer: the
    writer under test then meets many ring markers per node, marker reuse and all bond orders"""
    import networkx as nx
    defs = []
    feats = {'coarse', 'coarse:random_graph'}
    for f in range(R.choice([1, 1, 2])):
        n = R.choice([R.randint(2, 5), R.randint(4, 10), R.randint(5, 10)])
        g = nx.Graph()
        g.add_nodes_from(range(n))
        orders = R.choice([(1,), (1, 1, 2, 3, 0), (0, 3, 1), (1, 2, 3, 0), (0, 3)])
        for i in range(1, n):
            g.add_edge(R.randrange(i), i, order=R.choice(orders))
        for _ in range(R.choice([0, 1, 3, 6, 10, 14, 25, 40])):     # (dense: >= 10 simultaneously open ring bonds, %nn markers)
            if n < 3:
                break
            a, b = R.sample(range(n), 2)
            if not g.has_edge(a, b):
                g.add_edge(a, b, order=R.choice(orders))
        if g.number_of_edges() > n - 1:
            feats.add('coarse:ring')
        npool = R.choice([['A'], ['A', 'B'], ['A', 'B', 'SC1', 'TC5'], ['A', 'B', 'SC1', 'TC5']])     # (few names: runs of identical beads)
        names = {i: R.choice(npool) for i in range(n)}
        toks = {}
        has = False
        for i in range(n):
            ds = ''.join(rand_desc(R, 3) for _ in range(R.choice([0, 0, 0, 1, 2])))
            has = has or bool(ds)
            toks[i] = '[#%s]' % names[i] + ds
        if not has:
            toks[0] += '[$]'
        text = molgen.write_base(R, g, names, orders_sym={0: '.', 1: '', 2: '=', 3: '#', 4: '$'}, tokens=toks)[1:-1]
        defs.append('#G%d=%s' % (f, text))
    return dict(input='{' + ','.join(defs) + '}', mode='fragments', all_atom=False, features=sorted(feats))


def gen_long_coarse(R, tier):
    """one coarse fragment that is a chain of 1050-1500 beads (deeper than the default recursion limit)"""
    n = R.randint(1050, 1500)
    pool = R.choice([['A'], ['A', 'B'], ['SC1', 'TC5', 'A']])
    sym = R.choice([[''], ['', '', '='], ['', '.', '=', '#']])
    toks = []
    for i in range(n):
        toks.append((R.choice(sym) if i else '') + '[#%s]' % R.choice(pool))
    if R.chance(0.5):
        # the first bead (node 0, where the writer starts) lies inside the chain: one arm is written as a branch
        k = R.randint(300, n - 300)
        i1 = toks[1].index('[')      # the bond symbol of a branch is written in front of its parenthesis
        body = toks[0] + toks[1][:i1] + '(' + toks[1][i1:] + ''.join(toks[2:k]) + ')' + ''.join(toks[k:])
        return dict(input='{#G0=[$]' + body + R.choice(['[$]', '[>a]']) + '}', mode='fragments', all_atom=False,
                    features=['coarse', 'coarse:long_chain_1000+', 'coarse:long_chain_starts_inside'])
    return dict(input='{#G0=[$]' + ''.join(toks) + R.choice(['[$]', '[>a]', '=[$x]']) + '}', mode='fragments', all_atom=False,
                features=['coarse', 'coarse:long_chain_1000+'])


def gen_dotted(R, tier):
    """an all-atom fragment that holds two molecules separated by '.' (e.g. an ion pair or a stacked dimer); the
    atoms next to the dot are often aromatic"""
    if R.chance(0.4):
        # the atoms on both sides of the dot are aromatic (stacked rings, aromatic ion pairs)
        a = R.choice(['c1ccccc1', 'Cc1ccccc1', 'c1ccncc1', 'Oc1ccccc1', '[O-]c1ccccc1'])
        b = R.choice(['c1ccccc1', 'c1ccccc1C', 'c1cc[nH+]cc1', 'n1ccccc1', 'c1ccc(O)cc1'])
        text = R.choice(['[$]%s.%s', '%s.%s[$]', '%s[$].%s', '[>]%s.%s[<]']) % (a, b)
        return dict(input='{#F0=%s}' % text, mode='fragments', all_atom=True,
                    features=['atomistic', 'two_molecules_in_one_fragment', 'dot_between_aromatic_atoms'])
    parts = []
    for _ in range(2):
        m, _c = molgen.gen_mol_class(R, classes=[c for c in molgen.MOL_CLASSES if c['name'] in ('aromatic', 'tiny', 'chain')])
        d = defaultdict(list)
        for i in range(len(m.atoms)):
            if R.chance(0.15):
                d[i].append(rand_desc(R, 1))
        text, _ = molgen.render_fragment(R, m, list(range(len(m.atoms))), d, molgen.style_draw(R))
        parts.append(text)
    text = '.'.join(parts)
    if '[$' not in text and '[>' not in text and '[<' not in text and '[!' not in text:
        text = text + '[$]'
    return dict(input='{#F0=%s}' % text, mode='fragments', all_atom=True, features=['atomistic', 'two_molecules_in_one_fragment'])


def gen(R, tier):
    if R.chance(0.004):
        return gen_long_coarse(R, tier)
    if R.chance(0.06):
        return gen_dotted(R, tier)
    k = R.choice(['atomistic', 'atomistic', 'coarse', 'coarse_graph', 'coarse_graph', 'string', 'string'])
    if k == 'coarse_graph':
        return gen_coarse_graph(R, tier)
    if k == 'atomistic':
        return gen_atomistic(R, tier)
    if k == 'coarse':
        return gen_coarse(R, tier)
    if R.chance(0.25):
        # cyclic (co)polymers: runs of identical residues, ring bonds of any order anywhere in the base graph
        import networkx as nx
        n = R.randint(3, 9)
        g = nx.Graph()
        g.add_nodes_from(range(n))
        orders = R.choice([(1,), (1, 1, 2), (1, 2, 3, 0)])
        for i in range(1, n):
            g.add_edge(i - 1 if R.chance(0.8) else R.randrange(i), i, order=1 if R.chance(0.7) else R.choice(orders))
        for _ in range(R.choice([1, 1, 2])):
            a, b = R.sample(range(n), 2)
            if not g.has_edge(a, b):
                g.add_edge(a, b, order=R.choice([1, 2, 2, 3, 0]))
        pool = R.choice([['A'], ['A'], ['A', 'A', 'B'], ['PEO', 'PPO']])
        names = {i: R.choice(pool) for i in range(n)}
        text = molgen.write_base(R, g, names)
        frs = ','.join('#%s=[$]CC[$][$][$]' % nm for nm in sorted(set(names.values())))
        return dict(input=text + '.{' + frs + '}', mode='string', kind='fragset', last_all_atom=True, legacy=True, nlevels=1,
                    features=['string', 'cyclic_copolymer_base_graph'])
    # (ambiguous fragment sets over grammar base graphs: names repeat, ring bonds and bond orders in the base graph)
    case = resgen.gen_resolvable(R, tier, kinds=('cut', 'levels', 'cut', 'levels', 'fragset'))
    if case is None:
        return None
    case['mode'] = 'string'
    return case


def nontrivial(case):
    f = set(case['features'])
    return bool(f & {'several_per_atom', 'desc_with_order', 'coarse'}) or case.get('nlevels', 1) >= 2 or case.get('nfr', 1) >= 2


def _desc_multiset(d):
    return Counter(d.get('bonding', []) or [])


def compare_fragment(name, g, h, all_atom):
    key = 'element' if all_atom else 'atomname'

    def nm(a, b):
        if a.get(key) != b.get(key):
            return False
        if all_atom and (a.get('charge', 0) != b.get('charge', 0) or bool(a.get('aromatic', False)) != bool(b.get('aromatic', False))):
            return False
        return _desc_multiset(a) == _desc_multiset(b)

    def em(a, b):
        return a.get('order') == b.get('order')
    from ..invariants import iso
    return iso(g, h, nm, em)


def _show(g, all_atom):
    key = 'element' if all_atom else 'atomname'
    return 'nodes=%r edges=%r' % ([(n, d.get(key), d.get('charge', 0), bool(d.get('aromatic', False)), sorted(d.get('bonding', []) or []))
                                  for n, d in sorted(g.nodes(data=True))],
                                 sorted((min(a, b), max(a, b), d.get('order')) for a, b, d in g.edges(data=True)))


def oracle(case):
    from cgsmiles import MoleculeResolver
    from cgsmiles.read_fragments import read_fragments
    from cgsmiles.write_cgsmiles import write_cgsmiles_fragments, write_cgsmiles
    if case['mode'] == 'fragments':
        aa = case['all_atom']
        frags = sut(read_fragments, case['input'], all_atom=aa)
        if len(case['input']) > 5000:
            from ..runner import user_recursion_limit
            with user_recursion_limit():
                sut(write_cgsmiles_fragments, frags, smiles_format=aa)
        written = sut(write_cgsmiles_fragments, frags, smiles_format=aa)
        try:
            back = sut(read_fragments, written, all_atom=aa)
        except Exception as e:
            if hasattr(e, 'sig'):
                e.sig = 'written-fragments-not-readable:' + e.sig
                e.msg = 'written %s :: %s' % (written, e.msg)
            raise
        expect(set(back) == set(frags), 'writer:fragment-names', lambda: 'written %s has fragments %r' % (written, sorted(back)))
        for name in frags:
            expect(compare_fragment(name, frags[name], back[name], aa), 'writer:fragment-differs',
                   lambda: 'fragment %s written as %s: original %s / re-read %s' % (
                       name, written, _show(frags[name], aa), _show(back[name], aa)))
        return
    aa = case['last_all_atom']
    r = sut(lambda: MoleculeResolver.from_string(case['input'], last_all_atom=aa, legacy=case['legacy']))
    out = sut(write_cgsmiles, r.molecule, r.fragment_dicts, last_all_atom=aa)
    # the base-graph block of the written string reads back as the base graph of the source
    from cgsmiles import read_cgsmiles
    from ..invariants import iso
    base_src = sut(read_cgsmiles, case['input'][:case['input'].index('}') + 1])
    try:
        base_out = sut(read_cgsmiles, out[:out.index('}') + 1])
    except Exception as e:
        if hasattr(e, 'sig'):
            e.sig = 'written-string-not-resolvable:' + e.sig
            e.msg = 'written %s :: %s' % (out, e.msg)
        raise
    expect(iso(base_src, base_out, lambda a, b: a.get('fragname') == b.get('fragname'), lambda a, b: a.get('order') == b.get('order')),
           'writer:base-graph-differs', lambda: 'source %s written as %s' % (case['input'], out))
    if case['kind'] == 'fragset':
        return      # (an ambiguous set may legitimately pair descriptors differently after re-ordering)
    cg, fine = sut(r.resolve_all)
    try:
        cg2, fine2 = sut(lambda: MoleculeResolver.from_string(out, last_all_atom=aa, legacy=case['legacy']).resolve_all())
    except Exception as e:
        if hasattr(e, 'sig'):
            e.sig = 'written-string-not-resolvable:' + e.sig
            e.msg = 'written %s :: %s' % (out, e.msg)
        raise
    model_g = molgen.model_graph(case['model'])
    check_molecule(fine, model_g, 'source string')
    try:
        check_molecule(fine2, model_g, 'string written by write_cgsmiles (%s)' % out)
    except Fail as f:
        f.kind = 'writer:' + f.kind
        raise
