"""C15 - stereo information survives fragmentation and renumbering."""
import networkx as nx
from .. import env  # noqa
from .. import molgen
from ..runner import sut, expect, Fail
from .c01 import resolve

ID = 'C15'
RULE = ('cases: a random molecule with >=1 C=C (acyclic, or in a macrocycle of 8-10 atoms and then sometimes written '
        'as the ring-closure bond) whose chosen substituents are saturated atoms (1-3 stereo '
        'double bonds, ground truth cis/trans drawn per bond) and/or [C;x=R|S] labels on sp3 carbons; slash marks '
        'are derived from the ground truth by the OpenSMILES rule as a function of the writing direction chosen '
        'by the own renderer (independent of pysmiles). Variants of ONE molecule: single fragment, and 3 random '
        'partitions (cuts at the double bond or elsewhere, never between a slash mark and its atoms), each with '
        'random rendering and random base-graph order. Oracle: atoms are located through mapping; the ez_isomer '
        'annotation of each substituent holds exactly the tuple (substituent, atom, atom\', substituent\', truth); '
        'all variants agree with the truth; every stored tuple is a path with a double bond in the middle; '
        'chiral sits on exactly the labelled atoms with the written label. non-trivial = a variant with the '
        'stereo double bond itself cut, or >=2 fragments; distinct = molecule + partitions')
ASSUMPTIONS = ['substituents of a stereo double bond are saturated (pysmiles rejects conjugated marks loudly); a substituent may '
               'be shared by two double bonds, but renderings in which its two marks differ are excluded (one mark per atom in the reader and in pysmiles; consistent across fragmentations, hence not a violation of this property)',
               'no other double bond has an atom with two neighbours that take part in slash marks (pysmiles rejects '
               'that loudly as conflicting assignment; cgsmiles inherits it)']


def budget(tier):
    if tier == 'thorough':
        return dict(examples=3000, shards=16, procs=16)
    return dict(examples=300, shards=4, procs=4)


def pick_stereo(R, m):
    g = m.graph()
    bridges = {frozenset(e) for e in nx.bridges(g)} if len(m.atoms) > 1 else set()
    st = []
    used = set()
    for b in sorted(m.bonds, key=sorted):
        o = m.bonds[b]
        if o != 2 or b not in bridges:
            continue
        a1, a2 = sorted(b)
        if m.atoms[a1]['element'] != 'C' or m.atoms[a2]['element'] != 'C':
            continue

        def sat(x):
            return all(m.order(x, y) == 1 for y in m.nbrs(x))
        if any(m.order(a1, y) != 1 for y in m.nbrs(a1) if y != a2) or any(m.order(a2, y) != 1 for y in m.nbrs(a2) if y != a1):
            continue
        l1 = [x for x in m.nbrs(a1) if x != a2 and frozenset((a1, x)) in bridges and sat(x) and not m.atoms[x]['charge']]
        l2 = [x for x in m.nbrs(a2) if x != a1 and frozenset((a2, x)) in bridges and sat(x) and not m.atoms[x]['charge']]
        if not l1 or not l2:
            continue
        la, lb = R.choice(l1), R.choice(l2)
        if {a1, a2, la, lb} & used:
            continue
        used |= {a1, a2, la, lb}
        st.append(dict(a=a1, b=a2, la=la, lb=lb, rel=R.choice(['cis', 'trans'])))
    return st


def partition_keep(R, m, stereo, max_frags):
    for _ in range(6):
        owner = molgen.partition(R, m, max_frags, min_frags=2)
        if all(owner[s['la']] == owner[s['a']] and owner[s['lb']] == owner[s['b']] for s in stereo):
            return owner
    # merge fragments until marks are not separated
    owner = molgen.partition(R, m, max_frags, min_frags=2)
    for s in stereo:
        for x, y in ((s['la'], s['a']), (s['lb'], s['b'])):
            if owner[x] != owner[y]:
                old, new = owner[x], owner[y]
                owner = [new if o == old else o for o in owner]
    # renumber and keep fragments connected (merging connected sets that share a bond keeps them connected)
    ids = {o: i for i, o in enumerate(sorted(set(owner)))}
    return [ids[o] for o in owner]


LIG_ELEMS = ['C', 'C', 'C', 'N', 'O', 'S', 'F', 'Cl', 'Br']


def gen_stereo_mol(R, nunits, extra):
    """molecule built around `nunits` acyclic C=C units with saturated substituents; all stereo
    relevant bonds are bridges by construction (only tree growth and ring templates as leaves)"""
    m = molgen.Mol()
    stereo = []
    protected = set()      # atoms that must keep single bonds only (ligands) / no further multiple bonds (anchors)
    ligands = set()

    def lig_elem():
        # now and then the marked substituent is an explicitly written hydrogen
        return 'H' if R.chance(0.12) else R.choice(LIG_ELEMS)

    def new_unit(attach, share=False):
        a = m.add_atom('C')
        b = m.add_atom('C')
        m.add_bond(a, b, 2)
        if attach is not None:
            m.add_bond(attach, a, 1)
        macro = (not share) and R.chance(0.15)
        if share:
            la = attach          # one atom is the marked substituent of two double bonds (skipped diene)
        else:
            la = m.add_atom('C' if macro else lig_elem())
            m.add_bond(a, la, 1)
        if not macro and R.chance(0.2):
            # conjugated diene: the second double bond starts at the substituent position of the first;
            # the single bond between them carries one mark that serves both double bonds
            a2 = m.add_atom('C')
            b2 = m.add_atom('C')
            m.add_bond(b, a2, 1)
            m.add_bond(a2, b2, 2)
            lb2 = m.add_atom(lig_elem())
            m.add_bond(b2, lb2, 1)
            protected.update((a, b, la, a2, b2, lb2))
            ligands.update((la, lb2))
            stereo.append(dict(a=a, b=b, la=la, lb=a2, rel=R.choice(['cis', 'trans'])))
            stereo.append(dict(a=a2, b=b2, la=b, lb=lb2, rel=R.choice(['cis', 'trans'])))
            return
        lb = m.add_atom('C' if macro else lig_elem())
        m.add_bond(b, lb, 1)
        if macro:
            # macrocycle: the two marked substituents are joined by a saturated chain, the stereo double
            # bond lies in a ring of 8-10 atoms (and may be written as the ring-closure bond)
            prev = la
            for _ in range(R.randint(4, 6)):
                x = m.add_atom('C')
                m.add_bond(prev, x, 1)
                prev = x
            m.add_bond(prev, lb, 1)
            m.macro = True
        protected.update((a, b, la, lb))
        ligands.update((la, lb))
        stereo.append(dict(a=a, b=b, la=la, lb=lb, rel=R.choice(['cis', 'trans'])))
    new_unit(None)
    for _ in range(nunits - 1):
        shared = [i for i in sorted(ligands) if m.atoms[i]['element'] in ('C', 'N') and m.free(i) >= 1]
        if shared and R.chance(0.4):
            new_unit(R.choice(shared), share=True)
            continue
        cands = [i for i in range(len(m.atoms)) if m.free(i) >= 1 and i not in protected]
        if not cands:
            # spacer on a ligand
            lig = [i for i in ligands if m.free(i) >= 1]
            if not lig:
                break
            sp = m.add_atom('C')
            m.add_bond(R.choice(sorted(lig)), sp, 1)
            cands = [sp]
        new_unit(R.choice(cands))
    for _ in range(extra):
        cands = [i for i in range(len(m.atoms)) if m.free(i) >= 1]
        if not cands:
            break
        p = R.choice(cands)
        r = R.random()
        if r < 0.12:
            # phenyl / pyridyl leaf
            els = ['C'] * 6
            if R.chance(0.3):
                els[R.randint(1, 5)] = 'N'
            ids = [m.add_atom(e, aromatic=True) for e in els]
            for k in range(6):
                m.add_bond(ids[k], ids[(k + 1) % 6], 1.5)
            m.add_bond(p, ids[0], 1)
            protected.update(ids)
            continue
        if r < 0.2:
            # cycloalkyl leaf
            k = R.choice([3, 5, 6])
            ids = [m.add_atom('C') for _ in range(k)]
            for q in range(k):
                m.add_bond(ids[q], ids[(q + 1) % k], 1)
            m.add_bond(p, ids[0], 1)
            continue
        maxo = 1 if p in protected else min(m.free(p), 3)
        o = R.randint(2, maxo) if (maxo > 1 and R.chance(0.3)) else 1
        pool = [e for e in (molgen.CHAIN_ELEMS + molgen.TERM_ELEMS) if molgen.LOWEST_VALENCE[e] >= o]
        x = m.add_atom(R.choice(pool))
        m.add_bond(p, x, o)
    return m, stereo


def gen(R, tier):
    kind = R.choice(['ez', 'ez', 'ez+chiral', 'chiral'])
    if kind == 'chiral':
        m = molgen.gen_mol(R, max_heavy=R.choice([6, 10]), min_heavy=4, p_arom=0.2, p_multi=0.3, p_ring=0.4, p_charge=0.0)
        stereo = []
    else:
        m, stereo = gen_stereo_mol(R, R.choice([1, 1, 2, 3]), R.choice([0, 2, 5, 9]))
    chir = {}
    if kind != 'ez':
        for i, a in enumerate(m.atoms):
            if a['element'] == 'C' and not a['aromatic'] and len(m.nbrs(i)) >= 3 and m.bondsum(i) == len(m.nbrs(i)) and R.chance(0.5):
                chir[i] = R.choice('RS')
    if not stereo and not chir:
        return None
    # pysmiles (and cgsmiles with it) loudly rejects a double bond whose atom neighbours two atoms
    # that take part in slash marks of other double bonds ("Conflicting cis/trans assignment"):
    # such molecules are outside the domain
    tagged = {s[k] for s in stereo for k in ('a', 'b', 'la', 'lb')}
    units = {frozenset((s['a'], s['b'])) for s in stereo}
    for b in m.bonds:
        if m.bonds[b] == 2 and b not in units:
            for x in b:
                (y,) = b - {x}
                if sum(1 for z in m.nbrs(x) if z != y and z in tagged) >= 2:
                    return None
    variants = []
    dropped = 0
    for v in range(4):
        owner = [0] * len(m.atoms) if v == 0 else partition_keep(R, m, stereo, R.choice([2, 3, 4]))
        slash = {}
        second_marks = []
        all_ligs = {s_[k] for s_ in stereo for k in ('la', 'lb')}
        for s in stereo:
            ka, kb = frozenset((s['la'], s['a'])), frozenset((s['lb'], s['b']))
            if ka in slash:
                # the bond already carries the mark of a conjugated neighbour double bond, seen from
                # its other end: the same mark puts this end on the opposite side
                lig0, side0 = slash[ka]
                sa = side0 if lig0 == s['la'] else -side0
            else:
                sa = R.choice([1, -1])
                slash[ka] = (s['la'], sa)
            if kb in slash:
                lig0, side0 = slash[kb]
                sb = side0 if lig0 == s['lb'] else -side0
            else:
                sb = sa if s['rel'] == 'cis' else -sa
                slash[kb] = (s['lb'], sb)
            s['rel_v'] = 'cis' if sa == sb else 'trans'
            # the second substituent of an atom of the double bond may carry a (redundant, consistent)
            # mark as well: it sits on the other side than the marked one
            for anc, other, lig, side in ((s['a'], s['b'], s['la'], sa), (s['b'], s['a'], s['lb'], sb)):
                for x in m.nbrs(anc):
                    if x in (other, lig) or x in tagged or frozenset((x, anc)) in slash:
                        continue
                    plain = all(m.order(x, y) == 1 for y in m.nbrs(x)) and not m.atoms[x]['aromatic'] and \
                        all(all(m.order(y, z) == 1 for z in m.nbrs(y)) for y in m.nbrs(x) if y != anc)
                    if plain and R.chance(0.3):
                        slash[frozenset((x, anc))] = (x, -side)
                        second_marks.append(x)
        assert all(s['rel_v'] == s['rel'] for s in stereo)
        vfeats = set()
        text, info = molgen.build_cgsmiles(R, m, owner, kinds=('$', '><'), style=molgen.style_draw(R), feats=vfeats,
                                           annot={i: ('x=%s' if (i + v) % 3 else '1;%s') % c for i, c in chir.items()}, slash=slash)   # keyword or positional (weight;chirality) form
        if text is None or 'slash_on_ring_bond' in vfeats:
            continue
        # the reader (like pysmiles) keeps ONE mark per atom: the last one written next to it. For every
        # marked substituent the mark on the bond to its own double bond must therefore be the one the atom
        # ends up with (or all marks next to it are equal); other renderings are read consistently for
        # every fragmentation but not with the relation the generator drew, so they cannot be compared
        # with the ground truth and are outside the domain of this oracle
        conflict = False
        last_mark = {}
        for (u, w, t) in info['slashes']:
            last_mark[u] = t
            last_mark[w] = t
        on_bond = {frozenset((u, w)): t for (u, w, t) in info['slashes']}
        for s_ in stereo:
            for L, A in ((s_['la'], s_['a']), (s_['lb'], s_['b'])):
                if last_mark.get(L) != on_bond.get(frozenset((L, A))):
                    conflict = True
        if conflict:
            dropped += 1
            continue
        cut_at_double = [owner[s['a']] != owner[s['b']] for s in stereo]
        variants.append(dict(input=text, posmap={str(i): list(p) for i, p in info['posmap'].items()}, nfr=info['nfr'],
                             cut_at_double=any(cut_at_double), second_marks=len(second_marks)))
    if not variants:
        return None
    feats = {'stereo:%d' % min(len(stereo), 3), 'chiral:%d' % min(len(chir), 3)}
    if any(v['cut_at_double'] for v in variants):
        feats.add('cut_at_double_bond')
    if any(v['nfr'] >= 2 for v in variants):
        feats.add('multi_fragment')
    if any(v.get('second_marks') for v in variants):
        feats.add('both_substituents_of_an_atom_marked')
    ligs = [s_[k] for s_ in stereo for k in ('la', 'lb')]
    if len(set(ligs)) < len(ligs):
        feats.add('substituent_shared_by_two_double_bonds')
    anchors = {s_[k] for s_ in stereo for k in ('a', 'b')}
    if anchors & set(ligs):
        feats.add('conjugated_diene')
    if any(m.atoms[x]['element'] == 'H' for x in ligs):
        feats.add('explicit_hydrogen_substituent')
    if getattr(m, 'macro', False):
        feats.add('stereo_double_bond_in_macrocycle')
        import re
        if any(re.search(r'=(\d|%\d\d)', v['input']) for v in variants):
            feats.add('double_bond_written_as_ring_closure')
    if dropped:
        feats.add('variant_dropped:conflicting_marks_on_shared_substituent')
    return dict(input=variants[-1]['input'], variants=variants, stereo=stereo, chir={str(k): v for k, v in chir.items()},
                model=m.to_json(), features=sorted(feats))


def nontrivial(case):
    return any(v['cut_at_double'] or v['nfr'] >= 2 for v in case['variants'])


def key(case):
    return '|'.join(v['input'] for v in case['variants'])


def oracle(case):
    stereo = case['stereo']
    chir = case['chir']
    for v in case['variants']:
        text = v['input']
        cg, fine = sut(resolve, text)
        inv = {}
        for n, d in fine.nodes(data=True):
            for mp in d.get('mapping', []) or []:
                inv[tuple(mp)] = n
        node_of = {}
        for i, p in v['posmap'].items():
            expect(tuple(p) in inv, 'stereo:atom-not-found', lambda: '%s: no fine node maps to %r' % (text, p))
            node_of[int(i)] = inv[tuple(p)]
        # cross-check the location by element
        for i, n in node_of.items():
            expect(fine.nodes[n].get('element') == case['model']['atoms'][i][0], 'stereo:atom-not-found',
                   lambda: '%s: atom %d located at node %r with element %r' % (text, i, n, fine.nodes[n].get('element')))
        for s in stereo:
            la, lb, a, b = node_of[s['la']], node_of[s['lb']], node_of[s['a']], node_of[s['b']]
            for (x, ax, bx, y) in ((la, a, b, lb), (lb, b, a, la)):
                ez = fine.nodes[x].get('ez_isomer', []) or []
                rel = [t[4] for t in ez if tuple(t[:4]) == (x, ax, bx, y)]
                expect(len(rel) == 1, 'stereo:annotation-missing',
                       lambda: '%s: substituent node %r carries ez_isomer %r, expected one entry for (%r, %r, %r, %r)' % (text, x, ez, x, ax, bx, y))
                expect(rel[0] == s['rel'], 'stereo:cis-trans-flipped',
                       lambda: '%s: double bond %r=%r is %s, written as %s' % (text, ax, bx, rel[0], s['rel']))
        for n, d in fine.nodes(data=True):
            for t in d.get('ez_isomer', []) or []:
                ok = (len(t) == 5 and all(x in fine for x in t[:4]) and fine.has_edge(t[0], t[1]) and fine.has_edge(t[1], t[2])
                      and fine.has_edge(t[2], t[3]) and fine.edges[t[1], t[2]].get('order') == 2 and t[4] in ('cis', 'trans'))
                expect(ok, 'stereo:dangling-reference',
                       lambda: '%s: node %r stores %r which is not a path substituent-atom=atom-substituent' % (text, n, t))
        want = {node_of[int(i)]: c for i, c in chir.items()}
        got = {n: d['chiral'] for n, d in fine.nodes(data=True) if d.get('chiral') is not None}
        expect(got == want, 'stereo:chirality-label',
               lambda: '%s: chiral labels %r, expected %r' % (text, got, want))
