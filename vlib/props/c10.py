"""C10 - shared atoms: the squash operator merges exactly the two marked atoms."""
from .. import env  # noqa
from .. import molgen
from ..runner import sut, expect, Fail
from .c01 import check_molecule, resolve

ID = 'C10'
RULE = ('cases: the C01 construction (molecule model x partition x rendering) in which a random subset of the cut '
        'bonds is replaced by SHARING: the home atom v of fragment G is copied into the neighbouring fragment F '
        'with all of v\'s bonds into F and both copies get [!x]; the base edge counts one unit per shared pair. '
        'Several shared atoms per fragment, one atom shared by 3-4 fragments, chains of shared atoms, shared '
        'aromatic ring atoms, shared charged atoms, shared atoms that also carry ordinary descriptors; 8 %: one hub '
        'carbon held by 3-4 fragments whose [!x] pairs form a random tree, base graph written from a random root and handed to from_graph with permuted keys / edge order, optionally with the hub hydrogen as an explicit atom forming its own coarse node; labels are letters, x1/x2.. or digits. Oracle: the '
        'fine graph is isomorphic to the model (= the disjoint description of the same partition, which is '
        'resolved as a metamorphic twin), the number of heavy atoms equals the number of fragment atoms minus the '
        'number of shared pairs, each merged atom lists both coarse nodes in fragid and appears in both coarse '
        'graphs; when the fragment block holds at most one descriptor pair per kind the string is also resolved under '
        'the label-insensitive convention, once as written and once with every label rewritten at random. non-trivial = >=1 shared pair; distinct = string')
ASSUMPTIONS = ['both copies of a shared atom are written with the same element, charge and hydrogen count']


def budget(tier):
    if tier == 'thorough':
        return dict(examples=4000, shards=16, procs=16)
    return dict(examples=700, shards=4, procs=4)


CHAINS = [['O'], ['N'], ['C', 'C'], ['F'], ['Cl'], ['C', 'O'], ['S'], ['C', 'N']]


def gen_hub(R, tier):
    """one sp3 carbon shared by 3 or 4 fragments: every fragment holds a copy of the hub atom plus its own
    substituent; the [!x] pairs form a random TREE over the fragments (star, path, ...), the base graph is that
    tree written from a random root (so the squash pairs are met in any order)"""
    import networkx as nx
    k = R.choice([3, 4, 4])
    chains = [R.choice(CHAINS) for _ in range(k)]
    m = molgen.Mol()
    hub = m.add_atom('C')
    for ch in chains:
        prev = hub
        for e in ch:
            a = m.add_atom(e)
            m.add_bond(prev, a, 1)
            prev = a
    tree = nx.Graph()
    tree.add_node(0)
    order = list(range(1, k))
    R.shuffle(order)
    for f in order:
        tree.add_edge(f, R.choice(sorted(tree.nodes)), order=1)
    labels = molgen.label_stream()
    descs = {f: [] for f in range(k)}
    for a, b in tree.edges:
        lab = next(labels)
        descs[a].append('[!%s]' % lab)
        descs[b].append('[!%s]' % lab)
    hubtok = '[C]' if k == 4 else '[CH]'
    hfrag = None
    if k == 3 and R.chance(0.4):
        # the hub's hydrogen is an explicitly written atom that forms its own coarse node, bonded to ONE of the copies
        hfrag = R.randrange(k)
        hubtok = '[C]'
    frs = []
    for f in range(k):
        ds = list(descs[f]) + (['[$h]'] if f == hfrag else [])
        R.shuffle(ds)
        body = ''.join(chains[f])
        if R.chance(0.5):
            txt = hubtok + ''.join(ds) + body
        elif R.chance(0.5):
            txt = ''.join(reversed([body[i:i + 2] if body[i:i + 2] == 'Cl' else body[i] for i in range(len(body)) if not (i and body[i - 1:i + 1] == 'Cl')])) + hubtok + ''.join(ds)
        else:
            txt = ''.join(ds[:1]) + hubtok + ''.join(ds[1:]) + body
        frs.append('#F%d=%s' % (f, txt))
    names = ['F%d' % f for f in range(k)]
    if hfrag is not None:
        frs.append('#FH=' + R.choice(['[$h][H]', '[H][$h]']))
        names.append('FH')
        tree.add_edge(k, hfrag, order=1)
    R.shuffle(frs)
    nk = len(names)
    s = molgen.write_base(R, tree, names) + '.{' + ','.join(frs) + '}'
    keys = list(range(nk))
    R.shuffle(keys)
    gnodes = [[keys[f], names[f]] for f in range(nk)]
    R.shuffle(gnodes)
    gedges = [[keys[a], keys[b]] if R.chance(0.5) else [keys[b], keys[a]] for a, b in tree.edges]
    R.shuffle(gedges)
    shape = 'star' if max(dict(tree.degree).values()) == k - 1 else 'path' if max(dict(tree.degree).values()) == 2 else 'other'
    return dict(input=s, twin=None, model=m.to_json(), nshared=k - 1, natoms=len(m.atoms) + k - 1, nfr=k, hub=True, hfrag=hfrag is not None,
                frag_block='{' + ','.join(frs) + '}', base_nodes=gnodes, base_edges=gedges, legacy_false_ok=False, features=sorted({'hub_atom_shared_by_%d' % k, 'sharing_tree:' + shape, 'atom_shared_by_3+'} | ({'hydrogen_fragment_on_shared_atom'} if hfrag is not None else set())))


def gen_shared_with_caps(R, tier):
    """chain C-A-B-D: A and B share one carbon, and each copy of it also carries an ordinary descriptor towards
    its own cap (C resp. D), written before or after the '!': {[#C][#A][#B][#D]}.{#A=CC[$a][!x],#B=[$b][!x]CC,#C=[$a]O,#D=[$b]N}"""
    import networkx as nx
    ca, cb, cc, cd = [R.choice(CHAINS) for _ in range(4)]
    m = molgen.Mol()
    hub = m.add_atom('C')
    for ch in (ca, cb, cc, cd):
        prev = hub
        for e in ch:
            a = m.add_atom(e)
            m.add_bond(prev, a, 1)
            prev = a

    def txt(ch):
        return ''.join(ch)

    def rev(ch):
        return ''.join(reversed(ch))
    first = R.chance(0.7)
    ka, kb = R.choice(['$', '>']), R.choice(['$', '<'])
    da = '[%sa]' % ka
    dca = '[%sa]' % ('$' if ka == '$' else '<')
    db = '[%sb]' % kb
    dcb = '[%sb]' % ('$' if kb == '$' else '>')
    pa = (da + '[!x]') if first else ('[!x]' + da)
    pb = (db + '[!x]') if (first or R.chance(0.5)) else ('[!x]' + db)
    frs = ['#A=%s[C]%s' % (rev(ca), pa), '#B=[C]%s%s' % (pb, txt(cb)), '#C=%s%s' % (dca, txt(cc)), '#D=%s%s' % (dcb, txt(cd))]
    R.shuffle(frs)
    g = nx.Graph()
    g.add_edge(0, 1, order=1)
    g.add_edge(1, 2, order=1)
    g.add_edge(2, 3, order=1)
    s = molgen.write_base(R, g, ['C', 'A', 'B', 'D']) + '.{' + ','.join(frs) + '}'
    return dict(input=s, twin=None, model=m.to_json(), nshared=1, natoms=len(m.atoms) + 1, nfr=4, legacy_false_ok=False,
                features=sorted({'both_copies_of_a_shared_atom_carry_an_ordinary_descriptor'} | ({'every_squash_descriptor_written_second'} if first else set())))


def gen(R, tier):
    if R.chance(0.06):
        return gen_shared_with_caps(R, tier)
    if R.chance(0.08):
        return gen_hub(R, tier)
    if R.chance(0.2):
        # sharing on two or more levels handled by one resolver
        from .. import resgen
        c = resgen.gen_cut_string(R, tier, min_frags=2, with_levels=R.choice([1, 2]), shared_atoms=True)
        if c is None:
            return None
        nsh = c['input'].count('[!') // 2
        return dict(input=c['input'], twin=c['two_level'], model=c['model'], nshared=nsh, natoms=None, nfr=c['nfr'],
                    multilevel=True, features=sorted(set(c['features']) | {'multi_level_sharing'}))
    big = (tier == 'thorough') and R.chance(0.3)
    m, cname = molgen.gen_mol_class(R, big=big)
    fclass = R.choice(['two', 'two', 'few', 'few', 'many'])
    lo, hi = {'two': (2, 2), 'few': (2, 4), 'many': (4, 6)}[fclass]
    owner = molgen.partition(R, m, max_frags=hi, min_frags=lo)
    feats = {'mol:' + cname}
    style = molgen.style_draw(R)
    s, info = molgen.build_shared(R, m, owner, share=R.choice([0.3, 0.6, 1.0]), style=style, feats=feats)
    if s is None:
        return None
    twin, info2 = molgen.build_cgsmiles(R, m, owner, style=style)
    if twin is None:
        return None
    feats.add('shared:%s' % (info['nshared'] if info['nshared'] < 3 else '3+'))
    # with at most one descriptor pair of each kind the label-insensitive convention is unambiguous too
    fb = info['frag_block']
    unambiguous = fb.count('[!') <= 2 and fb.count('[$') <= 2 and fb.count('[>') <= 1 and fb.count('[<') <= 1
    if unambiguous:
        feats.add('also_label_insensitive')
        if fb.count('[!') == 2 and (fb.count('[$') == 2 or fb.count('[>') == 1):
            feats.add('label_insensitive_mixed_kinds')
    li = None
    if unambiguous:
        # under the label-insensitive convention only the symbol kind counts: every written label may change
        import re
        head, tail = s.split('}.{', 1)
        li = head + '}.{' + re.sub(r'\[([!$<>])(\w*)\]', lambda mo: '[%s%s]' % (mo.group(1), R.choice(['', 'p', 'q7', 'Zz', mo.group(2)])), tail)
        if li != s:
            feats.add('label_insensitive_relabelled')
    model = m
    natoms = info['natoms']
    if R.chance(0.12):
        # a counter ion: an isolated single-atom bead attached by an order-0 edge, written after the fragments
        # that share atoms
        ion = R.choice(['[Cl-]', '[F-]', '[Br-]'])

        def with_ion(text):
            head, tail = text.split('}.{', 1)
            return head + '.[#ION]}.{' + tail[:-1] + ',#ION=' + ion + '}'
        s, twin = with_ion(s), with_ion(twin)
        if li is not None:
            li = with_ion(li)
        import copy as _copy
        model = _copy.deepcopy(m)
        model.add_atom(ion[1:-2], charge=-1)
        natoms += 1
        feats.add('isolated_ion_bead_after_shared_atoms')
    return dict(legacy_false_ok=unambiguous, input_li=li, input=s, twin=twin, model=model.to_json(), nshared=info['nshared'], natoms=natoms,
                nfr=info['nfr'], features=sorted(feats))


def nontrivial(case):
    return case['nshared'] >= 1


def oracle(case):
    model_g = molgen.model_graph(case['model'])
    cg, fine = sut(resolve, case['input'])
    hg = check_molecule(fine, model_g, 'overlapping description')
    if case.get('multilevel'):
        _, fine2 = sut(resolve, case['twin'])
        check_molecule(fine2, model_g, 'two-level description')
        return
    expect(len(hg) == case['natoms'] - case['nshared'], 'squash:atom-count',
           lambda: '%d heavy atoms, fragments contain %d and %d pairs are shared' % (len(hg), case['natoms'], case['nshared']))
    if case.get('legacy_false_ok'):
        _, fine3 = sut(resolve, case['input'], legacy=False)
        check_molecule(fine3, model_g, 'overlapping description, label-insensitive convention')
        if case.get('input_li') and case['input_li'] != case['input']:
            _, fine4 = sut(resolve, case['input_li'], legacy=False)
            check_molecule(fine4, model_g, 'label-insensitive convention, labels rewritten (%s)' % case['input_li'])
    if case.get('hub'):
        # the same tree handed over as a graph: node keys permuted, nodes and edges inserted in random order
        import networkx as nx
        from cgsmiles import MoleculeResolver
        meta = nx.Graph()
        for n, nm in case['base_nodes']:
            meta.add_node(n, fragname=nm)
        for a, b in case['base_edges']:
            meta.add_edge(a, b, order=1)
        _, fineg = sut(lambda: MoleculeResolver.from_graph(case['frag_block'], meta).resolve_all())
        hgg = check_molecule(fineg, model_g, 'from_graph, nodes %r edges %r' % (case['base_nodes'], case['base_edges']))
        hubs = [n for n, d in fineg.nodes(data=True) if len(d.get('fragid', [])) > 1 and d.get('element') != 'H']
        holders = sorted(n for n, nm in case['base_nodes'] if nm != 'FH')
        expect(len(hubs) == 1 and sorted(fineg.nodes[hubs[0]]['fragid']) == holders, 'squash:membership',
               lambda: 'from_graph: merged atoms %r' % [(n, fineg.nodes[n]['fragid']) for n in hubs])
        if case.get('hfrag'):
            for what, cgx, fx in (('from_string', cg, fine), ('from_graph', None, fineg)):
                (hk,) = [k_ for k_, d in (cgx or meta).nodes(data=True) if d.get('fragname') == 'FH']
                mine = [n for n, d in fx.nodes(data=True) if hk in d.get('fragid', [])]
                expect(len(mine) == 1 and fx.nodes[mine[0]].get('element') == 'H' and fx.nodes[mine[0]]['fragid'] == [hk],
                       'squash:hydrogen-fragment-lost', lambda: '%s: coarse node %r (the hydrogen fragment) holds %r' % (
                           what, hk, [(n, fx.nodes[n].get('element'), fx.nodes[n]['fragid']) for n in mine]))
    if case.get('twin'):
        _, fine2 = sut(resolve, case['twin'])
        check_molecule(fine2, model_g, 'disjoint description')
    merged = [n for n, d in fine.nodes(data=True) if len(d.get('fragid', [])) > 1 and d.get('element') != 'H']
    total_extra = sum(len(fine.nodes[n]['fragid']) - 1 for n in merged)
    expect(total_extra == case['nshared'], 'squash:membership',
           lambda: 'merged atoms list %d extra coarse nodes in fragid, %d pairs are shared' % (total_extra, case['nshared']))
    for n in merged:
        fid = fine.nodes[n]['fragid']
        expect(len(set(fid)) == len(fid), 'squash:membership', lambda: 'atom %r fragid %r' % (n, fid))
        for k in fid:
            g = cg.nodes[k].get('graph')
            expect(g is not None and n in g, 'squash:membership',
                   lambda: 'merged atom %r (fragid %r) is missing in the graph of coarse node %r' % (n, fid, k))
