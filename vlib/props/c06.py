"""C06 - layered resolutions compose."""
import networkx as nx
from .. import env  # noqa
from .. import molgen, resgen, invariants
from ..runner import sut, expect, Fail

ID = 'C06'
RULE = ('cases: a C01 string (molecule model x partition x rendering) plus 1-3 intermediate levels obtained by '
        'repeatedly grouping the current base graph into connected groups; each group becomes a coarse fragment '
        'written by the own base-graph writer with one labelled descriptor pair per crossing edge carrying that '
        "edge's order symbol; group-level edge order = number of crossing edges. Atomistic last level, and a "
        'coarse last level (the atomistic block dropped: the last level must then reproduce the cut base graph); 8 %: '
        'block copolymers whose intermediate fragments use the multiplication operator, against the flat string. '
        'Oracle: final fine graph isomorphic to the model and to the two-level resolution; after each step the '
        'coarse graph IS the previous fine graph (same object); C02 mapping and C03 bonding invariants (dedicated '
        'pairs: exactly edge-order bonds) after every step; resolve() k times, resolve_iter() and resolve_all() on '
        'three fresh resolvers give equal canonical dumps, and so does continuing from the first fine graph through '
        'from_graph with the remaining blocks. non-trivial = >=3 levels in total with >=2 groups at '
        'some intermediate level; distinct = string')
ASSUMPTIONS = ['intermediate levels never contain order-0 edges (no cut bond has order 0)']


def budget(tier):
    if tier == 'thorough':
        return dict(examples=2500, shards=16, procs=16)
    return dict(examples=700, shards=4, procs=4)


MONOMERS = {'PEO': '[$]COC[$]', 'EO': '[$]COC[$]', 'PE': '[$]CC[$]', 'ET': '[$]CC[$]',     # (EO/ET: same body under another name)
             'TFE': '[$]C(F)(F)[$]', 'DMS': '[$]CSC[$]', 'PA': '[$]C=C[$]'}
CAPS = {'Me': 'C[$]', 'OH': 'O[$]', 'NH2': '[$]N', 'Cl': '[$]Cl'}


def gen_blocks(R, tier):
    """block copolymers written with the multiplication operator INSIDE the intermediate-level fragments:
    {[#B0][#B1]..}.{#B0=[#Me][#PEO]|3[#PE]|2[>], #B1=[<][#PE]|4[#OH]}.{monomers} against the flat
    {[#Me][#PEO]|3[#PE]|2[#PE]|4[#OH]}.{monomers}; symmetric monomers with unlabelled $ (a linear chain either way).
    A multiplier that is followed by a bonding descriptor is |2 (open finding F22 of C13: other counts
    shift the descriptor)"""
    nb = R.randint(2, 4)
    mons = R.sample(sorted(MONOMERS), R.randint(1, 3))
    caps = R.sample(sorted(CAPS), 2)
    blocks, flat = [], []
    for b in range(nb):
        if b < nb - 1:
            # a descriptor follows: every multiplier in front of it is |2
            runs = [(R.choice(mons), R.choice([1, 2, 2])) for _ in range(R.randint(1, 3))]
            toks = ['[#%s]%s' % (m, '' if n == 1 else '|2') for m, n in runs]
        else:
            runs = [(R.choice(mons), R.choice([1, 2, 3, 5])) for _ in range(R.randint(1, 3))]
            toks = ['[#%s]%s' % (m, '' if n == 1 and R.chance(0.7) else '|%d' % n) for m, n in runs]
        if b == 0:
            toks.insert(0, '[#%s]' % caps[0])
        if b == nb - 1:
            toks.append('[#%s]' % caps[1])
        flat += toks
        body = ''.join(toks)
        lab = 'abcd'[b]
        blocks.append('#B%d=%s%s%s' % (b, '[<%s]' % 'abcd'[b - 1] if b else '', body, '[>%s]' % lab if b < nb - 1 else ''))
    used = set(mons) | set(caps)
    frs = ['#%s=%s' % (k, v) for k, v in {**MONOMERS, **CAPS}.items() if k in used]
    R.shuffle(frs)
    R.shuffle(blocks)
    top = ''.join('[#B%d]' % b for b in range(nb))
    legacy = R.chance(0.5)
    feats = {'multiplier_inside_intermediate_fragment', 'blocks:%d' % nb, 'multi_group_level'}
    fr_block, bl_block = ','.join(frs), ','.join(blocks)
    if not legacy:
        # label-insensitive convention: only the symbol kind counts, so every label may be anything
        import re

        def rl(t):
            return re.sub(r'\[([$<>])(\w*)\]', lambda mo: '[%s%s]' % (mo.group(1), R.choice(['', 'p', 'q7', 'Zz', mo.group(2)])), t)
        fr_block, bl_block = rl(fr_block), rl(bl_block)
        feats.add('label_insensitive_relabelled')
    layered = '{%s}.{%s}.{%s}' % (top, bl_block, fr_block)
    two = '{%s}.{%s}' % (''.join(flat), fr_block)
    return dict(input=layered, two_level=two, last_all_atom=True, legacy=legacy, kind='blocks', dedicated=True, nlevels=2,
                nfr=nb, features=sorted(feats))


def gen(R, tier):
    if R.chance(0.08):
        return gen_blocks(R, tier)
    coarse_last = R.chance(0.25)
    case = resgen.gen_cut_string(R, tier, min_frags=2, with_levels=R.choice([1, 1, 2, 2, 3]), shared_atoms=R.chance(0.3),
                                 virtual_in_levels=0.0 if coarse_last else R.choice([0.0, 0.0, 0.3]))
    if case is None:
        return None
    if coarse_last:
        # coarse last level: drop the atomistic block
        s = case['input']
        head = s[:s.rindex('.{')]
        case = dict(case)
        case['input'] = head
        case['last_all_atom'] = False
        case['nlevels'] -= 1
        case['features'] = sorted(set(case['features']) | {'coarse_last_level'})
        # the expected last level is the cut base graph
        two = case['two_level']
        case['base_string'] = two[:two.index('.{')]
    return case


def nontrivial(case):
    return 'multi_group_level' in case['features'] and case['nlevels'] >= 2


def _resolver(case):
    from cgsmiles import MoleculeResolver
    return MoleculeResolver.from_string(case['input'], last_all_atom=case['last_all_atom'], legacy=case.get('legacy', True))


def oracle(case):
    from cgsmiles import MoleculeResolver, read_cgsmiles
    aa = case['last_all_atom']
    r = sut(_resolver, case)
    expect(r.resolutions == case['nlevels'], 'levels:count', lambda: 'resolver reports %d levels, string has %d' % (r.resolutions, case['nlevels']))
    prev_fine = r.molecule
    steps = []
    for lv in range(r.resolutions):
        cg, fine = sut(r.resolve)
        all_atom = aa and lv == r.resolutions - 1
        expect(cg is prev_fine, 'levels:coarse-is-not-previous-fine',
               lambda: "step %d: the returned coarse graph is not the previous step's fine graph" % lv)
        what = 'level %d: ' % lv
        invariants.check_mapping(cg, fine, r.fragment_dicts[lv], all_atom, what)
        invariants.check_bonds(cg, fine, r.fragment_dicts[lv], case.get('legacy', True), all_atom, True, what)
        prev_fine = fine
        steps.append(invariants.dump(fine))
    final = prev_fine
    if case['kind'] == 'blocks':
        _, fine2 = sut(lambda: MoleculeResolver.from_string(case['two_level'], legacy=case['legacy']).resolve_all())
        try:
            hg, hg2 = molgen.heavy_graph(final), molgen.heavy_graph(fine2)
        except ValueError as e:
            raise Fail('hydrogens:malformed', str(e))
        expect(molgen.same_mol(hg2, hg), 'levels:differs-from-two-level',
               lambda: 'layered: %s / flat %s: %s' % (molgen.describe(hg), case['two_level'], molgen.describe(hg2)))
    elif aa:
        model_g = molgen.model_graph(case['model'])
        try:
            hg = molgen.heavy_graph(final)
        except ValueError as e:
            raise Fail('hydrogens:malformed', str(e))
        expect(molgen.same_mol(model_g, hg), 'levels:final-differs-from-model',
               lambda: 'expected %s / got %s' % (molgen.describe(model_g), molgen.describe(hg)))
        _, fine2 = sut(lambda: MoleculeResolver.from_string(case['two_level']).resolve_all())
        expect(molgen.same_mol(molgen.heavy_graph(fine2), hg), 'levels:differs-from-two-level',
               lambda: 'two-level string %s gives %s' % (case['two_level'], molgen.describe(molgen.heavy_graph(fine2))))
    else:
        ref = sut(read_cgsmiles, case['base_string'])
        ok = (len(ref) == len(final) and ref.number_of_edges() == final.number_of_edges() and
              nx.is_isomorphic(ref, final, node_match=lambda a, b: a['fragname'] == b['atomname'],
                               edge_match=lambda a, b: a['order'] == b['order']))
        expect(ok, 'levels:final-differs-from-model',
               lambda: 'coarse last level: expected %s, got nodes %r edges %r' % (
                   case['base_string'], [d.get('atomname') for _, d in final.nodes(data=True)],
                   sorted((a, b, d.get('order')) for a, b, d in final.edges(data=True))))
    # three ways of driving the resolver
    r2 = sut(_resolver, case)
    it = sut(lambda: [invariants.dump(f) for _, f in r2.resolve_iter()])
    expect(it == steps, 'levels:resolve_iter-differs', lambda: 'resolve_iter() differs from repeated resolve() at step %d' % (
        [i for i, (a, b) in enumerate(zip(it, steps)) if a != b] or [min(len(it), len(steps))])[0])
    r3 = sut(_resolver, case)
    cg3, f3 = sut(r3.resolve_all)
    expect(invariants.dump(f3) == steps[-1], 'levels:resolve_all-differs', 'resolve_all() differs from repeated resolve()')
    expect(invariants.dump(cg3) == invariants.dump(cg), 'levels:resolve_all-coarse-differs',
           'coarse graph of resolve_all() differs from the one of the last resolve()')
    # a fourth way: the first step from the string, the remaining levels through from_graph on its fine graph
    if r.resolutions >= 2:
        import re
        blocks = re.findall(r"\{[^\}]+\}", case['input'])
        r4 = sut(_resolver, case)
        _, fine1 = sut(r4.resolve)
        r5 = sut(lambda: MoleculeResolver.from_graph('.'.join(blocks[2:]), fine1, last_all_atom=aa, legacy=case.get('legacy', True)))
        _, f5 = sut(r5.resolve_all)
        expect(invariants.dump(f5) == steps[-1], 'levels:from_graph-continuation-differs',
               'continuing from the first fine graph through from_graph differs from repeated resolve()')
