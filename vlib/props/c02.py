"""C02 - the coarse-to-fine mapping is a faithful partition into fragment copies."""
from .. import env  # noqa
from .. import resgen, invariants
from ..runner import sut, expect, Fail, SutError, note

ID = 'C02'
RULE = ('cases: (i) C01 strings (molecule x partition x rendering), (ii) multi-level strings (1-3 intermediate '
        'levels), (iii) ambiguous fragment sets over grammar base graphs (chains, branches, rings, multiplied '
        'units; 1-3 fragment names reused; atomistic or coarse fragments with internal rings, 0-4 random '
        'descriptors incl. shared-atom descriptors; both matching conventions). The invariant is evaluated after '
        'EVERY resolve() step: every fine node has a non-empty fragid within the coarse keys; each coarse node\'s '
        "'graph' holds exactly the fine nodes that record it; the sets cover the fine graph; the mapped nodes of "
        'a coarse node are in bijection with the template of its fragment name (same element/charge or node '
        'name, same internal bonds, equal orders for non-aromatic bonds, equal per-atom annotations), every '
        'member reports that fragment name; virtual nodes have no members; atoms annotated by the generator carry '
        'the written annotation (independent of the template reader); every case is resolved a second time '
        'through from_graph with other node keys and shuffled insertion order; base graphs with fragment-less nodes '
        'also as a graph object that was resolved before with fragments for those nodes; a pair of shared-atom descriptors never remains as a bond between two atoms. non-trivial = a fragment name used '
        '>=2 times, >=2 fragments of a dedicated/shared-atom string, or >=2 levels; distinct = string')
ASSUMPTIONS = ['templates are read through cgsmiles\' own fragment reader (reader defects are the subject of C04/C13)',
               'for atoms merged by the shared-atom operator name/charge/annotation comparisons are skipped '
               '(which of the two atoms survives is unspecified); shared-atom descriptors are only written on neutral sp3 carbon',
               'aromatic template bonds (1.5) are not compared (correct_aromatic_rings re-decides them globally; C01 compares them with the model)']


def budget(tier):
    if tier == 'thorough':
        return dict(examples=5000, shards=16, procs=16)
    return dict(examples=600, shards=4, procs=4)


def gen(R, tier):
    kind = R.choice(['cut', 'cutw', 'levels', 'levels', 'fragset', 'fragset', 'shared', 'multicut', 'explicit_h', 'explicit_h'])
    if kind == 'cutw':
        case = resgen.gen_cut_string(R, tier, weights=True)
    elif kind == 'levels' and R.chance(0.5):
        # shared atoms at the atomistic level AND shared nodes at the coarse levels of one resolver
        case = resgen.gen_cut_string(R, tier, min_frags=2, with_levels=R.choice([1, 1, 2]), shared_atoms=True)
    elif kind == 'explicit_h':
        from .c09 import gen_explicit_h
        case = gen_explicit_h(R, tier)
    else:
        case = resgen.gen_resolvable(R, tier, kinds=(kind,))
    if case is not None:
        case['perm_seed'] = R.randint(0, 10 ** 6)
        case['key_style'] = R.choice(['x10', 'reverse', 'same'])
        case['constructor'] = R.choice(['string', 'string', 'graph', 'dicts'])
        case['features'] = sorted(set(case['features']) | {'constructor:' + case['constructor']})
    return case


def nontrivial(case):
    s = case['input']
    base = s[:s.index('}') + 1]
    import re
    names = re.findall(r'\[#(\w+)', base)
    reused = len(names) >= 2 and len(set(names)) < len(names)
    return case['nlevels'] >= 2 or reused or '|' in base or (case['kind'] in ('shared', 'multicut', 'cut') and case.get('nfr', 1) >= 2)


def resolver_for(case):
    """the resolver for a case through the constructor named in case['constructor'] (default: whole string)"""
    import re
    from cgsmiles import MoleculeResolver, read_cgsmiles
    how = case.get('constructor', 'string')
    aa, legacy = case['last_all_atom'], case['legacy']
    if how == 'string':
        return MoleculeResolver.from_string(case['input'], last_all_atom=aa, legacy=legacy)
    blocks = re.findall(r"\{[^\}]+\}", case['input'])
    if how == 'graph':
        return MoleculeResolver.from_graph('.'.join(blocks[1:]), read_cgsmiles(blocks[0]), last_all_atom=aa, legacy=legacy)
    dicts = MoleculeResolver.read_fragment_strings(blocks[1:], last_all_atom=aa)
    return MoleculeResolver.from_fragment_dicts(blocks[0], dicts, last_all_atom=aa, legacy=legacy)


AROMATIC_REJECT = 'Likely you are writing an aromatic molecule'


def run_steps(case, per_step):
    """resolve step by step, calling per_step(level, cg, fine, templates, all_atom); legit
    rejections of ambiguous sets (aromaticity message) end the case quietly"""
    r = sut(resolver_for, case)
    for lv in range(r.resolutions):
        try:
            cg, fine = sut(r.resolve)
        except SutError as e:
            if case['kind'] == 'fragset' and e.type == 'SyntaxError' and AROMATIC_REJECT in e.msg:
                note('ambiguous_set_rejected_as_not_kekulisable')
                return r
            raise
        all_atom = case['last_all_atom'] and lv == r.resolutions - 1
        per_step(lv, cg, fine, r.fragment_dicts[lv], all_atom)
    return r


def graph_variant(case):
    """the base graph as nx.Graph with other keys and shuffled insertion order (from_graph)"""
    import random
    import re
    import networkx as nx
    from cgsmiles import MoleculeResolver, read_cgsmiles
    blocks = re.findall(r"\{[^\}]+\}", case['input'])
    meta = sut(read_cgsmiles, blocks[0])
    n = len(meta)
    style = case.get('key_style', 'x10')
    mp = {k: (10 * (k + 1) if style == 'x10' else (n - 1 - k) if style == 'reverse' else k) for k in meta.nodes}
    order = list(meta.nodes)
    random.Random(case.get('perm_seed', 0)).shuffle(order)
    g = nx.Graph()
    for k in order:
        g.add_node(mp[k], **meta.nodes[k])
    for a, b, d in meta.edges(data=True):
        g.add_edge(mp[a], mp[b], **d)
    return MoleculeResolver.from_graph('.'.join(blocks[1:]), g, last_all_atom=case['last_all_atom'], legacy=case['legacy']), \
        [mp[k] for k in order]


def reused_graph_variant(case):
    """a base-graph object that was resolved before with a fragment set that DOES define the names of the
    fragment-less (virtual) nodes V/W, handed to from_graph again with the fragments of the case"""
    import re
    from cgsmiles import MoleculeResolver, read_cgsmiles
    blocks = re.findall(r"\{[^\}]+\}", case['input'])
    g = sut(read_cgsmiles, blocks[0])
    names = {k: d['fragname'] for k, d in g.nodes(data=True)}
    extra = ',#V=O,#W=N}' if case['last_all_atom'] else ',#V=[#q],#W=[#r][#r]}'
    try:
        MoleculeResolver.from_graph(blocks[1][:-1] + extra, g, last_all_atom=case['last_all_atom'], legacy=case['legacy']).resolve_all()
    except Exception:
        return None         # the first use is only there to leave its traces on the graph object
    for k in g.nodes:
        g.nodes[k]['fragname'] = names[k]
    return MoleculeResolver.from_graph(blocks[1], g, last_all_atom=case['last_all_atom'], legacy=case['legacy'])


def oracle(case):
    def step(lv, cg, fine, templates, all_atom):
        invariants.check_mapping(cg, fine, templates, all_atom, 'level %d: ' % lv)
    last = {}

    def step2(lv, cg, fine, templates, all_atom):
        step(lv, cg, fine, templates, all_atom)
        last['fine'] = fine
    r0 = run_steps(case, step2)
    if r0.resolution_counter < r0.resolutions:
        return
    # annotations written by the generator (independent of the template reader) sit on the copies
    for (name, pos), want in case.get('expect_annotations', []):
        fine = last['fine']
        hits = [n for n, d in fine.nodes(data=True) if [name, pos] in [list(mp) for mp in d.get('mapping', [])]]
        expect(len(hits) == 1, 'mapping:annotated-atom-not-found', lambda: 'template atom %s[%d] maps to nodes %r' % (name, pos, hits))
        d = fine.nodes[hits[0]]
        for k, v in want.items():
            expect(k in d and d[k] == v, 'mapping:annotation',
                   lambda: 'atom %s[%d] (node %r) has %s=%r, written %r' % (name, pos, hits[0], k, d.get(k), v))
    r, keys = sut(graph_variant, case)
    for lv in range(r.resolutions):
        try:
            cg, fine = sut(r.resolve)
        except SutError as e:
            # with other node keys the base edges are visited in another order; an ambiguous set may then
            # pair an aromatic atom with a descriptor of order 2, which is legitimately rejected
            if case['kind'] == 'fragset' and e.type == 'SyntaxError' and AROMATIC_REJECT in e.msg:
                note('ambiguous_set_rejected_as_not_kekulisable')
                return
            raise
        all_atom = case['last_all_atom'] and lv == r.resolutions - 1
        invariants.check_mapping(cg, fine, r.fragment_dicts[lv], all_atom, 'from_graph (node keys in insertion order %r) level %d: ' % (keys, lv))
    base = case['input'][:case['input'].index('}') + 1]
    if case['nlevels'] == 1 and ('[#V]' in base or '[#W]' in base):
        r = sut(reused_graph_variant, case)
        if r is None:
            return
        note('base_graph_object_reused_virtual_names_defined_before')
        try:
            cg, fine = sut(r.resolve)
        except SutError as e:
            if case['kind'] == 'fragset' and e.type == 'SyntaxError' and AROMATIC_REJECT in e.msg:
                return
            raise
        invariants.check_mapping(cg, fine, r.fragment_dicts[0], case['last_all_atom'], 'from_graph on a reused base graph object: ')
