"""Coverage-guided tier: libFuzzer (atheris) mutates the Hypothesis choice sequence of a property's
structured generator; the semantic oracle stays inside the target (failures are collected, the
target never crashes so the campaign continues behind a failure).

Run as a sub-process:  python -m vlib.fuzz <ID> <runs> <seed> <out.json> [known feature ...]
(cgsmiles must be imported under atheris.instrument_imports, hence the fresh interpreter)."""
import json
import os
import sys
import time


def main():
    pid, runs, seed, out = sys.argv[1], int(sys.argv[2]), int(sys.argv[3]), sys.argv[4]
    known = sys.argv[5:]
    from . import env
    import atheris
    with atheris.instrument_imports(include=['cgsmiles']):
        import cgsmiles  # noqa
        import cgsmiles.read_cgsmiles  # noqa
        import cgsmiles.read_fragments  # noqa
        import cgsmiles.dialects  # noqa
        import cgsmiles.resolve  # noqa
    env.check_tree()
    from hypothesis import given, settings, strategies as st, HealthCheck, Phase
    from .draw import Draw
    from . import runner
    prop = runner.load_prop(pid)
    col = runner.Collector(prop, known)
    state = dict(execs=0, t0=time.time())

    @settings(database=None, deadline=None, suppress_health_check=list(HealthCheck), phases=[Phase.generate],
              report_multiple_bugs=False, print_blob=False)
    @given(st.data())
    def test(data):
        col.eval_case(prop.gen(Draw(data), 'thorough'))

    def flush():
        d = col.to_dict()
        d['execs'] = state['execs']
        d['wall_s'] = round(time.time() - state['t0'], 1)
        tmp = out + '.tmp'
        with open(tmp, 'w') as fh:
            json.dump(d, fh, default=str)
        os.replace(tmp, out)

    fuzz_one = test.hypothesis.fuzz_one_input

    def target(data):
        state['execs'] += 1
        try:
            fuzz_one(data)
        except Exception:
            # generator/harness problem on this byte string: not a property failure; keep going
            col.notes['fuzz_target_exceptions'] += 1
        if state['execs'] % 250 == 0 or state['execs'] >= runs:
            flush()

    corpus = out + '.corpus'
    os.makedirs(corpus, exist_ok=True)
    if os.environ.get('VERIF_FUZZ_SEED_CORPUS', '1') == '1':
        # Hypothesis decodes the fuzzer's bytes into its choice sequence; libFuzzer starts from
        # inputs of a few bytes, on which every structured generator runs out of data. The seed
        # corpus is a set of byte strings long enough to drive a whole case (pinned by the seed).
        import random
        rnd = random.Random(seed)
        for i in range(48):
            with open(os.path.join(corpus, 'seed%02d' % i), 'wb') as fh:
                fh.write(bytes(rnd.getrandbits(8) for _ in range(rnd.choice([256, 1024, 3000]))))
    flush()
    atheris.Setup([sys.argv[0], '-runs=%d' % runs, '-seed=%d' % max(1, seed), '-max_len=4096', '-verbosity=0',
                   '-print_final_stats=0', corpus], target)
    atheris.Fuzz()


if __name__ == '__main__':
    main()
