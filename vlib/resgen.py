"""Generators of resolvable CGsmiles strings shared by C02 C03 C06 C08 C09 C11 C12:
 * 'cut'     - C01 construction (molecule model x partition x rendering), dedicated descriptor pairs
 * 'levels'  - a 'cut' string with 1-3 intermediate coarse levels (G-LEVELS)
 * 'fragset' - ambiguous fragment sets over a grammar base graph (G-FRAGSET), no ground truth
"""
from collections import defaultdict

import networkx as nx

from . import gram, molgen

SY = {0: '.', 1: '', 2: '=', 3: '#', 4: '$'}


# ----------------------------------------------------------------------------------------
# G-LEVELS
# ----------------------------------------------------------------------------------------
def write_cg_fragment(R, sub, names, desc):
    tokens, late = {}, {}
    for n in sub.nodes:
        ds = list(desc.get(n, []))
        R.shuffle(ds)
        k = R.randint(0, len(ds)) if (ds and R.chance(0.4)) else len(ds)
        tokens[n] = '[#%s]' % names[n] + ''.join(ds[:k])
        # a descriptor that starts with a bond symbol cannot follow a closing brace unambiguously
        # ('...)=[$a]' is fine for the reader: the symbol is taken by the descriptor)
        late[n] = ''.join(ds[k:])
    return molgen.write_base(R, sub, names, tokens=tokens, late_tokens=late)[1:-1]


def group_level(R, base, names, prefix, labels, kinds=('$', '><'), p_share=0.0, p_virtual=0.0):
    """group the nodes of `base` (edges carry 'order') into connected groups.
    A crossing edge is written as a labelled descriptor pair, or - with probability p_share - by
    SHARING its end node b: b is copied into the other group (with all of b's edges into that
    group) and both copies carry [!x].
    returns (upper graph, upper names, fragment block of this level, owner map, #shared) or None"""
    nodes = list(base.nodes)
    k = R.randint(1, len(nodes))
    seeds = R.sample(nodes, k)
    owner = {s: i for i, s in enumerate(seeds)}
    while len(owner) < len(nodes):
        c = [(a, b) for a in sorted(owner) for b in sorted(base[a]) if b not in owner]
        if not c:
            return None
        a, b = R.choice(c)
        owner[b] = owner[a]
    up = nx.Graph()
    up.add_nodes_from(range(k))

    def bump(ga, gb):
        if up.has_edge(ga, gb):
            up.edges[ga, gb]['order'] += 1
        else:
            up.add_edge(ga, gb, order=1)
    desc = defaultdict(lambda: defaultdict(list))
    subs = {g: base.subgraph([n for n in nodes if owner[n] == g]).copy() for g in range(k)}
    subnames = dict(names)
    crossing = [(a, b, o) for a, b, o in sorted(base.edges(data='order')) if owner[a] != owner[b]]
    if any(o == 0 for _, _, o in crossing):
        return None
    handled = set()
    copies = {}
    nshared = 0
    R.shuffle(crossing)
    for (a, b, o) in crossing:
        if (a, b) in handled or not R.chance(p_share):
            continue
        u, v = (a, b) if R.chance(0.5) else (b, a)
        F, G = owner[u], owner[v]
        if (v, F) in copies:
            continue
        us = [x for x in base[v] if owner[x] == F]
        if any(tuple(sorted((x, v))) in handled for x in us):
            continue
        cp = 100000 + len(copies)
        copies[(v, F)] = cp
        subnames[cp] = names[v]
        subs[F].add_node(cp)
        for x in us:
            subs[F].add_edge(x, cp, order=base.edges[x, v]['order'])
            handled.add(tuple(sorted((x, v))))
        lab = next(labels)
        desc[F][cp].append('[!%s]' % lab)
        desc[G][v].append('[!%s]' % lab)
        bump(F, G)
        nshared += 1
    for (a, b, o) in crossing:
        if tuple(sorted((a, b))) in handled:
            continue
        ga, gb = owner[a], owner[b]
        lab = next(labels)
        kind = R.choice(kinds)
        da, db = (('[$%s]' % lab,) * 2) if kind == '$' else ('[>%s]' % lab, '[<%s]' % lab)
        desc[ga][a].append(SY[o] + da)
        desc[gb][b].append(SY[o] + db)
        bump(ga, gb)
    if any(o > 4 for _, _, o in up.edges(data='order')):
        return None
    # fragment-less (virtual) nodes and order-0 edges inside the fragments of this level
    nvirtual = 0
    orig = {cp: v for (v, _F), cp in copies.items()}
    for g in range(k):
        if R.chance(p_virtual):
            v = 200000 + nvirtual
            nvirtual += 1
            subnames[v] = R.choice(['V', 'W'])
            subs[g].add_node(v)
            subs[g].add_edge(v, R.choice(sorted(n for n in subs[g].nodes if n < 100000)), order=0)
        elif R.chance(p_virtual) and len(subs[g]) >= 3:
            a, b = R.sample(sorted(n for n in subs[g].nodes), 2)
            # (two copies of shared nodes may be bonded through their originals in another group:
            # an order-0 edge between the copies would contradict that bond after the merge)
            if not subs[g].has_edge(a, b) and not base.has_edge(orig.get(a, a), orig.get(b, b)):
                subs[g].add_edge(a, b, order=0)
    # (fragment names are not restricted to word characters: ions and block names such as NA+, CL-, PEO-b occur)
    upnames = {g: '%s%d%s' % (prefix, g, R.choice(['', '', '', '', '', '+', '-', '-b'])) for g in range(k)}
    # a fragment name may be reused on another level: some groups take the name of one of their members
    taken = set(upnames.values())
    for g in range(k):
        if R.chance(0.3):
            cand = names[R.choice(sorted(n for n in nodes if owner[n] == g))]
            if cand not in taken:
                taken.discard(upnames[g])
                upnames[g] = cand
                taken.add(cand)
    defs = []
    for g in range(k):
        defs.append('#%s=%s' % (upnames[g], write_cg_fragment(R, subs[g], subnames, desc[g])))
    R.shuffle(defs)
    return up, upnames, '{' + ','.join(defs) + '}', owner, nshared + 0 * nvirtual


def add_levels(R, info, nlevels, p_share=0.0, p_virtual=0.0):
    """info from molgen.build_cgsmiles -> (full multi-level string, list of level blocks top-down,
    number of groups per level, number of shared nodes) or None"""
    base = info['base']
    names = {f: info['names'][f] for f in base.nodes}
    labels = molgen.label_stream('L')
    levels = []
    groups = []
    shared = 0
    cur, curnames = base, names
    for lv in range(nlevels):
        r = group_level(R, cur, curnames, 'G%d_' % lv, labels, p_share=p_share, p_virtual=p_virtual)
        if r is None:
            return None
        cur, curnames, block, _owner, nsh = r
        shared += nsh
        levels.append(block)
        groups.append(len(cur))
    top = molgen.write_base(R, cur, curnames)
    blocks = list(reversed(levels))
    s = top + '.' + '.'.join(blocks) + '.' + info['frag_block']
    return s, blocks, groups, shared


# ----------------------------------------------------------------------------------------
# G-FRAGSET
# ----------------------------------------------------------------------------------------
DESC_KINDS = ['$', '$', '$', '>', '<', '!']
DESC_LABELS = ['', '', '', 'A', 'B']


def rand_desc(R, orders=(1, 1, 1, 2), kinds=None, allow_squash=True):
    k = R.choice(kinds or DESC_KINDS)
    if k == '!' and not allow_squash:
        k = '$'
    lab = R.choice(DESC_LABELS)
    o = R.choice(orders) if k != '!' else 1
    return {1: '', 2: '=', 3: '#'}[o] + '[%s%s]' % (k, lab)


def gen_fragset(R, names, all_atom, squash=True):
    """fragment definitions with random (ambiguous) descriptors. returns dict name -> text"""
    defs = {}
    for nm in names:
        if all_atom:
            m = molgen.gen_mol(R, max_heavy=R.choice([1, 3, 5]), p_arom=R.choice([0.0, 0.0, 0.6]), p_charge=0.15,
                               p_multi=0.25, p_ring=0.3, hyper=False)
            atoms = list(range(len(m.atoms)))
        else:
            m = molgen.Mol()
            n = R.randint(1, 4)
            for i in range(n):
                m.add_atom('C')
            for i in range(1, n):
                m.add_bond(R.randrange(i), i, 1)
            if n >= 3 and R.chance(0.2) and frozenset((0, n - 1)) not in m.bonds:
                m.add_bond(0, n - 1, 1)
            atoms = list(range(n))
        d = defaultdict(list)
        nd = R.choice([0, 1, 2, 2, 3, 4]) if len(names) > 1 else R.choice([1, 2, 2, 3, 4])
        for _ in range(nd):
            a = R.choice(atoms)
            # '!' only on neutral sp3 carbon so that the surviving atom of a merge is not ambiguous
            # and never together with another descriptor on the same atom: two descriptor pairs between
            # the same two atoms (one of them '!') have no defined meaning (one graph edge cannot hold both)
            if any(x.endswith('!]') or '[!' in x for x in d[a]):
                continue
            if m.atoms[a]['aromatic']:
                # an aromatic atom takes at most one single-order ordinary descriptor: whether it is
                # used or left over, the ring can always be kekulised
                if d[a] or m.free(a) < 1:
                    continue        # (an aromatic atom that already has a substituent has no valence left)
                d[a].append('[%s%s]' % (R.choice(['$', '$', '>', '<']), R.choice(DESC_LABELS)))
                continue
            ok_sq = squash and not d[a] and m.atoms[a]['element'] == 'C' and not m.atoms[a]['charge'] and \
                all(m.order(a, x) == 1 for x in m.nbrs(a))
            d[a].append(rand_desc(R, allow_squash=ok_sq))
        text, pos = molgen.render_fragment(R, m, atoms, d, style=dict(bracket=0.1 if all_atom else 0.0, omit_h=0.0, explicit_single=0.1 if all_atom else 0.0))
        if not all_atom:
            # coarse: every 'C' token becomes a named node; squash partners share one name
            cnt = [0]
            out = []
            for ch in text:
                if ch == 'C':
                    cnt[0] += 1
                    out.append('[#%s]' % R.choice(['X', 'Y', 'Z']))
                else:
                    out.append(ch)
            text = ''.join(out)
        defs[nm] = text
    return defs


def gen_fragset_string(R, tier, all_atom=None):
    names = ['A', 'B', 'C'][:R.choice([1, 2, 2, 3])]
    style = R.choice(['chain', 'polymer', 'branched', 'ring'])
    if style == 'polymer':
        n = R.choice([2, 3, 5, 8])
        base = '{' + ''.join('[#%s]|%d' % (nm, R.randint(1, n)) for nm in names) + '}'
        feats = {'base:polymer'}
    else:
        kw = dict(max_nodes=R.choice([3, 6, 9]), min_nodes=2, p_sym=0.3, orders=(0, 1, 1, 2, 3),
                  p_branch={'chain': 0.1, 'branched': 0.5, 'ring': 0.2}[style],
                  p_ring={'chain': 0.0, 'branched': 0.1, 'ring': 0.5}[style], max_depth=3)
        ast = gram.gen_ast(R, names=names, **kw)
        try:
            gram.interpret(ast)
        except gram.Invalid:
            return None
        feats = {'base:' + style}
        names = sorted({nd.name for nd in gram.all_nodes(ast)})
        if R.chance(0.25):
            # virtual (fragment-less) nodes attached by order-0 edges only
            feats.add('virtual_node')
            for _ in range(R.choice([1, 1, 2])):
                v = gram.Node(R.choice(['V', 'W']))
                where = R.choice(['first', 'last', 'branch'])
                if where == 'first':
                    v.nxt = 0
                    ast.insert(0, v)
                elif where == 'last':
                    ast[-1].nxt = 0
                    ast.append(v)
                else:
                    host = R.choice(list(gram.all_nodes(ast)))
                    if host.name in ('V', 'W'):
                        continue
                    host.branches.insert(R.randint(0, len(host.branches)), [0, [v], None, None])
        base = gram.render(ast)
    if all_atom is None:
        all_atom = R.chance(0.6)
    defs = gen_fragset(R, names, all_atom)
    order = list(defs)
    R.shuffle(order)
    s = base + '.{' + ','.join('#%s=%s' % (k, defs[k]) for k in order) + '}'
    legacy = R.chance(0.5)
    feats.add('all_atom' if all_atom else 'coarse')
    feats.add('legacy' if legacy else 'cgsmiles-convention')
    if '!' in s:
        feats.add('squash')
    return dict(input=s, last_all_atom=all_atom, legacy=legacy, kind='fragset', dedicated=False,
                features=sorted(feats), nlevels=1)


# ----------------------------------------------------------------------------------------
# combined
# ----------------------------------------------------------------------------------------
def gen_cut_string(R, tier, min_frags=1, with_levels=0, classes=None, weights=False, shared_atoms=False,
                   virtual_in_levels=0.0):
    big = (tier == 'thorough') and R.chance(0.3)
    m, cname = molgen.gen_mol_class(R, big=big, classes=classes)
    fclass = R.choice(['one', 'two', 'few', 'many'])
    lo, hi = {'one': (1, 1), 'two': (2, 2), 'few': (2, 4), 'many': (4, 7 if tier == 'thorough' else 5)}[fclass]
    lo = max(lo, min_frags)
    hi = max(hi, lo)
    owner = molgen.partition(R, m, max_frags=hi, min_frags=lo)
    feats = {'mol:' + cname}
    annot = None
    if weights:
        annot = {i: R.choice(['0.5', '2', 'w=0.25', '0', 'foo=bar', '3;foo=x']) for i in range(len(m.atoms)) if R.chance(0.35)}
    mr = m
    if m.arom_rings and not shared_atoms and R.chance(0.2):
        mr = molgen.kekulized(R, m)
        feats.add('kekule_rendering')
    if m.quin_rings and not shared_atoms and mr is m and R.chance(0.75):
        mr = molgen.lowered(m)
        feats.add('quinoid_ring_written_lower_case')
    if shared_atoms:
        s, info = molgen.build_shared(R, m, owner, share=R.choice([0.4, 0.8]), style=molgen.style_draw(R), feats=feats)
        if s is not None and info['nshared']:
            feats.add('shared_atoms_at_atomistic_level')
    else:
        s, info = molgen.build_cgsmiles(R, mr, owner, style=molgen.style_draw(R), feats=feats, annot=annot or None)
    if s is None:
        return None
    nfr = info['nfr']
    feats.add('frags:%s' % (nfr if nfr < 4 else '4+'))
    case = dict(input=s, last_all_atom=True, legacy=True, kind='cut', dedicated=True, model=m.to_json(),
                nfr=nfr, nlevels=1, two_level=s)
    if not shared_atoms:
        case['written_descriptors'] = info['written']
    if annot:
        feats.add('annotated_atoms')
        exp = []
        for i, a in annot.items():
            want = {}
            for ent in a.split(';'):
                if '=' in ent:
                    k_, v_ = ent.split('=')
                    want['weight' if k_ == 'w' else k_] = float(v_) if k_ == 'w' else v_
                else:
                    want['weight'] = float(ent)
            want.setdefault('weight', 1.0)
            exp.append([list(info['posmap'][i]), want])
        case['expect_annotations'] = exp
    if with_levels:
        r = add_levels(R, info, with_levels, p_share=R.choice([0.0, 0.0, 0.3, 0.6]) if not shared_atoms else R.choice([0.3, 0.6, 1.0]),
                       p_virtual=virtual_in_levels)
        if r is None:
            return None
        s2, blocks, groups, nshared = r
        case.update(input=s2, kind='levels', nlevels=1 + with_levels, groups=groups)
        if nshared:
            feats.add('shared_node_at_coarse_level')
        if '[#V]' in s2 or '[#W]' in s2:
            feats.add('virtual_node_inside_a_fragment')
        feats.add('levels:%d' % (1 + with_levels))
        if any(g >= 2 for g in groups):
            feats.add('multi_group_level')
    case['features'] = sorted(feats)
    return case


def gen_multicut_model(R):
    """two chains joined by 2-3 cross bonds of which exactly one is double or triple (a ring cut
    several times with mixed orders); returns (molecule, owner)"""
    m = molgen.Mol()
    na, nb = R.randint(2, 5), R.randint(2, 5)
    A = [m.add_atom(R.choice(['C', 'C', 'C', 'N'])) for _ in range(na)]
    B = [m.add_atom(R.choice(['C', 'C', 'C', 'N'])) for _ in range(nb)]
    for x in (A, B):
        for i in range(1, len(x)):
            m.add_bond(x[i - 1], x[i], 1)
    k = R.choice([2, 2, 3])
    pa = R.sample(A, min(k, na))
    pb = R.sample(B, min(k, nb))
    pairs = list(zip(pa, pb))
    special = R.randrange(len(pairs))
    for i, (a, b) in enumerate(pairs):
        o = 1
        if i == special:
            o = min(m.free(a), m.free(b), R.choice([2, 2, 3]))
            o = max(o, 1)
        if m.free(a) >= o and m.free(b) >= o:
            m.add_bond(a, b, o)
    # decorate
    for _ in range(R.randint(0, 3)):
        c = [i for i in range(len(m.atoms)) if m.free(i) >= 1]
        if not c:
            break
        x = m.add_atom(R.choice(['C', 'O', 'N', 'F', 'Cl']))
        m.add_bond(R.choice(c), x, 1)
    owner = [0 if i in A else 1 if i in B else None for i in range(len(m.atoms))]
    for i in range(len(m.atoms)):
        if owner[i] is None:
            owner[i] = owner[m.nbrs(i)[0]]
    return m, owner


def gen_multicut_string(R, tier):
    m, owner = gen_multicut_model(R)
    if len(set(owner)) < 2 or not any(owner[min(b)] != owner[max(b)] for b in m.bonds):
        return None
    feats = {'mol:multicut'}
    s, info = molgen.build_cgsmiles(R, m, owner, style=molgen.style_draw(R), feats=feats)
    if s is None:
        return None
    return dict(input=s, last_all_atom=True, legacy=True, kind='multicut', dedicated=True, model=m.to_json(),
                nfr=info['nfr'], nlevels=1, two_level=s, features=sorted(feats | {'frags:2'}))


def gen_shared_string(R, tier):
    m, cname = molgen.gen_mol_class(R)
    owner = molgen.partition(R, m, max_frags=R.choice([2, 3, 5]), min_frags=2)
    feats = {'mol:' + cname}
    s, info = molgen.build_shared(R, m, owner, share=R.choice([0.4, 0.8, 1.0]), style=molgen.style_draw(R), feats=feats)
    if s is None:
        return None
    feats.add('shared_atoms:%d' % min(info['nshared'], 3))
    legacy = True
    if label_insensitive_ok(info['frag_block']) and R.chance(0.5):
        s2 = relabel(R, s)
        if s2 != s:
            s, legacy = s2, False
            feats.add('label_insensitive_relabelled')
    return dict(input=s, last_all_atom=True, legacy=legacy, kind='shared', dedicated=True, model=m.to_json(),
                nfr=info['nfr'], nlevels=1, two_level=s, features=sorted(feats))


def label_insensitive_ok(fb):
    """at most one descriptor pair of each kind in the fragment block: the label-insensitive
    convention (only the symbol kind counts) then pairs the descriptors the same way"""
    return fb.count('[!') <= 2 and fb.count('[$') <= 2 and fb.count('[>') <= 1 and fb.count('[<') <= 1


def relabel(R, s):
    """every descriptor label of the fragment blocks rewritten at random (for legacy=False)"""
    import re
    head, tail = s.split('}.{', 1)
    return head + '}.{' + re.sub(r'\[([!$<>])(\w*)\]',
                                 lambda mo: '[%s%s]' % (mo.group(1), R.choice(['', 'p', 'q7', 'Zz', mo.group(2)])), tail)


def gen_resolvable(R, tier, kinds=('cut', 'levels', 'fragset')):
    kind = R.choice(kinds)
    if kind == 'multicut':
        return gen_multicut_string(R, tier)
    if kind == 'shared':
        return gen_shared_string(R, tier)
    if kind == 'cut':
        return gen_cut_string(R, tier)
    if kind == 'levels':
        return gen_cut_string(R, tier, min_frags=2, with_levels=R.choice([1, 1, 2, 3]), shared_atoms=R.chance(0.25),
                              virtual_in_levels=R.choice([0.0, 0.0, 0.3]))
    return gen_fragset_string(R, tier)
