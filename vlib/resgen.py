"""Generators of resolvable CGsmiles strings shared by C02 C03 C06 C08 C09 C11 C12:
 * 'cut'     - C01 construction (molecule model x partition x rendering), dedicated descriptor pairs
 * 'levels'  - a 'cut' string with 1-3 intermediate coarse levels (G-LEVELS)
 * 'fragset' - ambiguous fragment sets over a grammar base graph (G-FRAGSET), no ground truth
"""
from collections import defaultdict

import networkx as nx

from . import gram, molgen

SY = {0: '.', 1: '', 2: '=', 3: '#', 4: '$'}


# ----------------------------------------------------------------------------------------
# G-LEVELS
# ----------------------------------------------------------------------------------------
def write_cg_fragment(R, sub, names, desc):
    tokens = {n: '[#%s]' % names[n] + ''.join(desc.get(n, [])) for n in sub.nodes}
    return molgen.write_base(R, sub, names, tokens=tokens)[1:-1]


def group_level(R, base, names, prefix, labels, kinds=('$', '><')):
    """group the nodes of `base` (edges carry 'order') into connected groups.
    returns (upper graph, upper names, fragment block of this level, owner map) or None"""
    nodes = list(base.nodes)
    k = R.randint(1, len(nodes))
    seeds = R.sample(nodes, k)
    owner = {s: i for i, s in enumerate(seeds)}
    while len(owner) < len(nodes):
        c = [(a, b) for a in sorted(owner) for b in sorted(base[a]) if b not in owner]
        if not c:
            return None      # disconnected base graph (order-0 only ...) cannot happen for cut strings
        a, b = R.choice(c)
        owner[b] = owner[a]
    up = nx.Graph()
    up.add_nodes_from(range(k))
    desc = defaultdict(lambda: defaultdict(list))
    for a, b, o in sorted(base.edges(data='order')):
        ga, gb = owner[a], owner[b]
        if ga == gb:
            continue
        if o == 0:
            return None
        lab = next(labels)
        kind = R.choice(kinds)
        da, db = (('[$%s]' % lab,) * 2) if kind == '$' else ('[>%s]' % lab, '[<%s]' % lab)
        desc[ga][a].append(SY[o] + da)
        desc[gb][b].append(SY[o] + db)
        if up.has_edge(ga, gb):
            up.edges[ga, gb]['order'] += 1
        else:
            up.add_edge(ga, gb, order=1)
    if any(o > 4 for _, _, o in up.edges(data='order')):
        return None
    upnames = {g: '%s%d' % (prefix, g) for g in range(k)}
    defs = []
    for g in range(k):
        sub = base.subgraph([n for n in nodes if owner[n] == g]).copy()
        defs.append('#%s=%s' % (upnames[g], write_cg_fragment(R, sub, names, desc[g])))
    R.shuffle(defs)
    return up, upnames, '{' + ','.join(defs) + '}', owner


def add_levels(R, info, nlevels):
    """info from molgen.build_cgsmiles -> (full multi-level string, list of level blocks top-down,
    number of groups per level) or None"""
    base = info['base']
    names = {f: info['names'][f] for f in base.nodes}
    labels = molgen.label_stream('L')
    levels = []
    groups = []
    cur, curnames = base, names
    for lv in range(nlevels):
        r = group_level(R, cur, curnames, 'G%d_' % lv, labels)
        if r is None:
            return None
        cur, curnames, block, _owner = r
        levels.append(block)
        groups.append(len(cur))
    top = molgen.write_base(R, cur, curnames)
    blocks = list(reversed(levels))
    s = top + '.' + '.'.join(blocks) + '.' + info['frag_block']
    return s, blocks, groups


# ----------------------------------------------------------------------------------------
# G-FRAGSET
# ----------------------------------------------------------------------------------------
DESC_KINDS = ['$', '$', '$', '>', '<', '!']
DESC_LABELS = ['', '', '', 'A', 'B']


def rand_desc(R, orders=(1, 1, 1, 2), kinds=None, allow_squash=True):
    k = R.choice(kinds or DESC_KINDS)
    if k == '!' and not allow_squash:
        k = '$'
    lab = R.choice(DESC_LABELS)
    o = R.choice(orders) if k != '!' else 1
    return {1: '', 2: '=', 3: '#'}[o] + '[%s%s]' % (k, lab)


def gen_fragset(R, names, all_atom, squash=True):
    """fragment definitions with random (ambiguous) descriptors. returns dict name -> text"""
    defs = {}
    for nm in names:
        if all_atom:
            m = molgen.gen_mol(R, max_heavy=R.choice([1, 3, 5]), p_arom=0.0, p_charge=0.15, p_multi=0.25,
                               p_ring=0.3, hyper=False)
            atoms = list(range(len(m.atoms)))
        else:
            m = molgen.Mol()
            n = R.randint(1, 4)
            for i in range(n):
                m.add_atom('C')
            for i in range(1, n):
                m.add_bond(R.randrange(i), i, 1)
            if n >= 3 and R.chance(0.2) and frozenset((0, n - 1)) not in m.bonds:
                m.add_bond(0, n - 1, 1)
            atoms = list(range(n))
        d = defaultdict(list)
        nd = R.choice([0, 1, 2, 2, 3, 4]) if len(names) > 1 else R.choice([1, 2, 2, 3, 4])
        for _ in range(nd):
            a = R.choice(atoms)
            # '!' only on neutral sp3 carbon so that the surviving atom of a merge is not ambiguous
            ok_sq = squash and m.atoms[a]['element'] == 'C' and not m.atoms[a]['charge'] and \
                all(m.order(a, x) == 1 for x in m.nbrs(a))
            d[a].append(rand_desc(R, allow_squash=ok_sq))
        text, pos = molgen.render_fragment(R, m, atoms, d, style=dict(bracket=0.1 if all_atom else 0.0, omit_h=0.0, explicit_single=0.1 if all_atom else 0.0))
        if not all_atom:
            # coarse: every 'C' token becomes a named node; squash partners share one name
            cnt = [0]
            out = []
            for ch in text:
                if ch == 'C':
                    cnt[0] += 1
                    out.append('[#%s]' % R.choice(['X', 'Y', 'Z']))
                else:
                    out.append(ch)
            text = ''.join(out)
        defs[nm] = text
    return defs


def gen_fragset_string(R, tier, all_atom=None):
    names = ['A', 'B', 'C'][:R.choice([1, 2, 2, 3])]
    style = R.choice(['chain', 'polymer', 'branched', 'ring'])
    if style == 'polymer':
        n = R.choice([2, 3, 5, 8])
        base = '{' + ''.join('[#%s]|%d' % (nm, R.randint(1, n)) for nm in names) + '}'
        feats = {'base:polymer'}
    else:
        kw = dict(max_nodes=R.choice([3, 6, 9]), min_nodes=2, p_sym=0.3, orders=(0, 1, 1, 2, 3),
                  p_branch={'chain': 0.1, 'branched': 0.5, 'ring': 0.2}[style],
                  p_ring={'chain': 0.0, 'branched': 0.1, 'ring': 0.5}[style], max_depth=3)
        ast = gram.gen_ast(R, names=names, **kw)
        try:
            gram.interpret(ast)
        except gram.Invalid:
            return None
        base = gram.render(ast)
        feats = {'base:' + style}
        names = sorted({nd.name for nd in gram.all_nodes(ast)})
    if all_atom is None:
        all_atom = R.chance(0.6)
    defs = gen_fragset(R, names, all_atom)
    order = list(defs)
    R.shuffle(order)
    s = base + '.{' + ','.join('#%s=%s' % (k, defs[k]) for k in order) + '}'
    legacy = R.chance(0.5)
    feats.add('all_atom' if all_atom else 'coarse')
    feats.add('legacy' if legacy else 'cgsmiles-convention')
    if '!' in s:
        feats.add('squash')
    return dict(input=s, last_all_atom=all_atom, legacy=legacy, kind='fragset', dedicated=False,
                features=sorted(feats), nlevels=1)


# ----------------------------------------------------------------------------------------
# combined
# ----------------------------------------------------------------------------------------
def gen_cut_string(R, tier, min_frags=1, with_levels=0, classes=None):
    big = (tier == 'thorough') and R.chance(0.3)
    m, cname = molgen.gen_mol_class(R, big=big, classes=classes)
    fclass = R.choice(['one', 'two', 'few', 'many'])
    lo, hi = {'one': (1, 1), 'two': (2, 2), 'few': (2, 4), 'many': (4, 7 if tier == 'thorough' else 5)}[fclass]
    lo = max(lo, min_frags)
    hi = max(hi, lo)
    owner = molgen.partition(R, m, max_frags=hi, min_frags=lo)
    feats = {'mol:' + cname}
    s, info = molgen.build_cgsmiles(R, m, owner, style=molgen.style_draw(R), feats=feats)
    if s is None:
        return None
    nfr = info['nfr']
    feats.add('frags:%s' % (nfr if nfr < 4 else '4+'))
    case = dict(input=s, last_all_atom=True, legacy=True, kind='cut', dedicated=True, model=m.to_json(),
                nfr=nfr, nlevels=1, two_level=s)
    if with_levels:
        r = add_levels(R, info, with_levels)
        if r is None:
            return None
        s2, blocks, groups = r
        case.update(input=s2, kind='levels', nlevels=1 + with_levels, groups=groups)
        feats.add('levels:%d' % (1 + with_levels))
        if any(g >= 2 for g in groups):
            feats.add('multi_group_level')
    case['features'] = sorted(feats)
    return case


def gen_resolvable(R, tier, kinds=('cut', 'levels', 'fragset')):
    kind = R.choice(kinds)
    if kind == 'cut':
        return gen_cut_string(R, tier)
    if kind == 'levels':
        return gen_cut_string(R, tier, min_frags=2, with_levels=R.choice([1, 1, 2, 3]))
    return gen_fragset_string(R, tier)
