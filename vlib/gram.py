"""G-GRAPH: the CGsmiles base-graph grammar as an AST, with a random generator, a renderer, a
reference interpreter (O-REFGRAPH), multiplier decoration + longhand expansion (C05) and
annotation records (C14).  Independent of the code under test."""
import copy
import itertools

SYM = {0: '.', 1: '-', 2: '=', 3: '#', 4: '$'}
ORDERS = (0, 1, 2, 3, 4)


class Node:
    __slots__ = ('name', 'annot', 'attrs', 'rings', 'branches', 'mult', 'nxt')

    def __init__(self, name, annot='', attrs=None):
        self.name = name
        self.annot = annot            # text after the name, '' or ';...'
        self.attrs = attrs or {}      # expected non-default attributes from the annotation
        self.rings = []               # list of [order|None, ring id, marker text]
        self.branches = []            # list of [order|None, chain, mult|None, between|None]
        self.mult = None              # node multiplier
        self.nxt = None               # order symbol to the next item of the chain (None = none)


def sym(o):
    return '' if o is None else SYM[o]


def val(o):
    return 1 if o is None else o


def render_chain(chain):
    out = []
    for nd in chain:
        out.append('[#%s%s]' % (nd.name, nd.annot))
        if nd.mult is not None:
            out.append('|%d' % nd.mult)
        for (o, rid, text) in nd.rings:
            out.append(sym(o) + text)
        for (o, sub, mult, between) in nd.branches:
            out.append(sym(o) + '(' + render_chain(sub) + ')')
            if mult is not None:
                out.append(sym(between) + '|%d' % mult)
        out.append(sym(nd.nxt))
    return ''.join(out)


def render(chain):
    return '{' + render_chain(chain) + '}'


def all_nodes(chain):
    for nd in chain:
        yield nd
        for br in nd.branches:
            yield from all_nodes(br[1])


class Invalid(Exception):
    pass


def interpret(chain):
    """reference semantics of a multiplier-free AST ->
    (nodes [(name, attrs)], edges {(a, b): order}); raises Invalid on duplicate edge /
    dangling ring"""
    nodes = []
    edges = {}
    open_rings = {}

    def add_edge(a, b, o):
        key = (min(a, b), max(a, b))
        if key in edges or a == b:
            raise Invalid('duplicate edge')
        edges[key] = o

    def walk(chain, prev, prev_order):
        for nd in chain:
            if nd.mult is not None:
                raise Invalid('multiplier in reference interpreter')
            cur = len(nodes)
            nodes.append((nd.name, dict(nd.attrs)))
            if prev is not None:
                add_edge(prev, cur, val(prev_order))
            for (o, rid, _text) in nd.rings:
                if rid in open_rings:
                    other, oo = open_rings.pop(rid)
                    add_edge(other, cur, oo)
                else:
                    open_rings[rid] = (cur, val(o))
            for (o, sub, mult, _between) in nd.branches:
                if mult is not None:
                    raise Invalid('multiplier in reference interpreter')
                walk(sub, cur, o)
            prev, prev_order = cur, nd.nxt

    walk(chain, None, None)
    if open_rings:
        raise Invalid('dangling')
    return nodes, edges


def expected(chain):
    """JSON-able expectation"""
    nodes, edges = interpret(chain)
    return dict(nodes=[[n, a] for n, a in nodes],
                edges=sorted([a, b, o] for (a, b), o in edges.items()))


# ----------------------------------------------------------------------------------------
# annotations (base-graph dialect: q, w positional; shared with C14)
# ----------------------------------------------------------------------------------------
NUM_SPELLINGS = ['1', '+1', '-1', '0', '0.5', '-0.25', '1e-1', '2', '+0.75', '12', '1.50', '-3e0', '.5']
FREE_KEYS = ['mass', 'r', 'p', 'foo', 'k1', 'label', 'site', 't', 'zz', 'Res', 'S1', 'Rg']
FREE_VALUES = ['abc', 's', 'l', '72', 'X1', 'a_b', '0.5', 'R', 'up', 'a-b', 'v+', 'head group', 'Fe(III)', '(R)']
# free keys that merely look like reserved ones (they contain a reserved symbol or end in a verbose name)
LOOKALIKE_KEYS = ['molweight', 'surfacecharge', 'qq', 'wx', 'xw', 'y', 'z', 'nchiral']


def free_keys(reserved):
    """free keys for a level: a symbol that is reserved only at the OTHER level is an ordinary free key"""
    syms = {s for s, _, _ in reserved}
    other = [k for k in ('q', 'x') if k not in syms]
    return FREE_KEYS + LOOKALIKE_KEYS + other + other


def gen_annotation(R, reserved, p_any=1.0, max_free=2):
    """reserved: list of (symbol, fullname, kind) in positional order, kind 'float' or 'str'.
    Returns (text incl. leading ';' or '', expected dict of *given* keys fullname -> value)"""
    if not R.chance(p_any):
        return '', {}
    given = {}
    # which reserved keys are given
    use = [r for r in reserved if R.chance(0.6)]
    nfree = R.randint(0, max_free)
    free = R.sample(sorted(set(free_keys(reserved))), nfree)
    if not use and not free:
        use = [R.choice(reserved)]
    vals = {}
    for (s, full, kind) in use:
        if kind == 'float':
            sp = R.choice(NUM_SPELLINGS)
            vals[s] = sp
            given[full] = float(sp)
        else:
            sp = R.choice(['R', 'S'])
            vals[s] = sp
            given[full] = sp
    # positional prefix: the longest prefix of reserved all of which are given, cut randomly
    npos = 0
    for (s, _, _) in reserved:
        if s in vals:
            npos += 1
        else:
            break
    npos = R.randint(0, npos)
    entries = []
    for (s, _, _) in reserved[:npos]:
        entries.append(vals[s])
    kw = [(s, vals[s]) for (s, _, _) in reserved[npos:] if s in vals]
    for k in free:
        v = R.choice(FREE_VALUES)
        kw.append((k, v))
        given[k] = v
    R.shuffle(kw)
    entries += ['%s=%s' % (k, v) for k, v in kw]
    return ''.join(';' + e for e in entries), given


BASE_RESERVED = [('q', 'charge', 'float'), ('w', 'weight', 'float')]
FRAG_RESERVED = [('w', 'weight', 'float'), ('x', 'chiral', 'str')]


# ----------------------------------------------------------------------------------------
# random generator of multiplier-free ASTs
# ----------------------------------------------------------------------------------------
def _marker_text(R, rid, allow_pct=True):
    if rid < 10:
        c = R.randint(0, 9)
        if c < 6 or not allow_pct:
            return str(rid)
        if c < 8:
            return '%' + str(rid)
        return '%0' + str(rid)
    return '%' + str(rid)


class _State:
    def __init__(self):
        self.n = 0
        self.open = {}        # rid -> node idx
        self.adj = set()      # frozenset pairs
        self.opened_at = {}   # rid -> Node object (to drop dangling)
        self.opened_entry = {}  # rid -> the ring entry (list object) that opened it


def gen_chain(R, st, names, budget, depth, anchor, cfg):
    chain = []
    length = R.randint(1, max(1, min(budget[0], cfg['max_chain'])))
    prev = anchor
    for k in range(length):
        if budget[0] <= 0:
            break
        budget[0] -= 1
        annot, attrs = ('', {})
        if cfg['p_annot'] and R.chance(cfg['p_annot']):
            annot, attrs = gen_annotation(R, BASE_RESERVED)
        nd = Node(R.choice(names), annot, attrs)
        idx = st.n
        st.n += 1
        if prev is not None:
            st.adj.add(frozenset((prev, idx)))
        used_here = set()
        nr = 0
        while nr < cfg['max_rings_per_node'] and R.chance(cfg['p_ring']):
            nr += 1
            closable = [rid for rid, j in st.open.items()
                        if frozenset((j, idx)) not in st.adj and j != idx and rid not in used_here]
            if closable and R.chance(0.6):
                rid = R.choice(closable)
                j = st.open.pop(rid)
                st.adj.add(frozenset((j, idx)))
                nd.rings.append([None, rid, _marker_text(R, rid)])
                used_here.add(rid)
            elif len(st.open) < cfg['max_open']:
                free = [r for r in range(0, 10) if r not in st.open and r not in used_here]
                closed_here = [r[1] for r in nd.rings if r[1] not in st.open and [x[1] for x in nd.rings].count(r[1]) == 1]
                if closed_here and R.chance(0.3):
                    # the id of a ring bond closed at this node is re-used at once for a new one ('[#C]11')
                    rid = R.choice(closed_here)
                elif R.chance(0.3) or not free:
                    rid = R.choice([r for r in (10, 11, 12, 25, 99, 100, 123, 134, 256)
                                    if r not in st.open and r not in used_here])
                else:
                    rid = R.choice(free)
                o = R.choice(cfg['orders']) if R.chance(cfg['p_sym']) else None
                st.open[rid] = idx
                st.opened_at[rid] = nd
                nd.rings.append([o, rid, _marker_text(R, rid)])
                st.opened_entry[rid] = nd.rings[-1]
                used_here.add(rid)
        _order_markers(nd)
        while budget[0] > 0 and depth < cfg['max_depth'] and len(nd.branches) < cfg['max_branches'] \
                and R.chance(cfg['p_branch']):
            o = R.choice(cfg['orders']) if R.chance(cfg['p_sym']) else None
            sub = gen_chain(R, st, names, budget, depth + 1, idx, cfg)
            if sub:
                nd.branches.append([o, sub, None, None])
        chain.append(nd)
        prev = idx
        if k < length - 1 and budget[0] > 0:
            nd.nxt = R.choice(cfg['orders']) if R.chance(cfg['p_sym']) else None
    if chain:
        chain[-1].nxt = None
    return chain


def _order_markers(nd):
    """a '%n' marker directly followed by a bare digit marker would be read as one marker:
    put bare digit markers first (a marker preceded by a bond symbol can follow anything)"""
    digits = [r for r in nd.rings if not r[2].startswith('%') and r[0] is None]
    rest = [r for r in nd.rings if r not in digits]
    # among the rest a '%' marker followed by an un-symboled digit cannot occur (all those are in digits)
    nd.rings = digits + rest


DEFAULT_CFG = dict(max_chain=4, p_annot=0.0, p_ring=0.25, p_sym=0.3, p_branch=0.3, max_depth=3,
                   max_branches=3, max_rings_per_node=3, max_open=3, orders=ORDERS)


def gen_ast(R, names=('A', 'B', 'C'), max_nodes=8, min_nodes=1, **kw):
    cfg = dict(DEFAULT_CFG)
    cfg.update(kw)
    budget = [R.randint(min(min_nodes, max_nodes), max_nodes)]
    st = _State()
    chain = gen_chain(R, st, list(names), budget, 0, None, cfg)
    if st.open:
        # drop markers never closed
        for rid in st.open:
            nd = st.opened_at[rid]
            nd.rings = [r for r in nd.rings if r is not st.opened_entry[rid]]
    return chain


def features(chain):
    f = set()
    s = render_chain(chain)
    nodes = list(all_nodes(chain))
    if any(nd.branches for nd in nodes):
        f.add('branch')
    if any(nd.rings for nd in nodes):
        f.add('ring')
    if '))' in s:
        f.add('close_close')
    if any(len(nd.branches) > 1 for nd in nodes):
        f.add('multi_branch')
    if any(nd.annot for nd in nodes):
        f.add('annotation')
    if '%' in s:
        f.add('pct_marker')
    orders = set()
    for nd in nodes:
        if nd.nxt is not None:
            f.add('sym_between_nodes')
            orders.add(nd.nxt)
        for r in nd.rings:
            if r[0] is not None:
                f.add('sym_before_ring')
                orders.add(r[0])
        for i, b in enumerate(nd.branches):
            if b[0] is not None:
                f.add('sym_before_branch')
                orders.add(b[0])
        if nd.branches and nd.nxt is not None:
            f.add('sym_after_branch')
    if orders - {1}:
        f.add('nondefault_order')

    def depth(ch):
        return 1 + max([depth(b[1]) for nd in ch for b in nd.branches] or [0])
    d = depth(chain) - 1
    if d >= 2:
        f.add('nested>=2')
    if d >= 3:
        f.add('nested>=3')
    # simultaneously open rings
    return f


# ----------------------------------------------------------------------------------------
# exhaustive enumeration of small ASTs
# ----------------------------------------------------------------------------------------
def enum_shapes(n, depth):
    """all chain shapes with exactly n nodes: a chain is a list of items; an item is a node
    with a list of branches (each a chain).  Yields nested lists: chain = [branches_of_node, ...]
    where branches_of_node = [chain, ...]"""
    if n == 0:
        return
    # first node takes branches using k nodes in total, rest of chain uses n-1-k

    def node_with(k, d):
        # all lists of branches using exactly k nodes in total
        if k == 0:
            yield []
            return
        if d <= 0:
            return
        for first in range(1, k + 1):
            for sub in enum_shapes(first, d - 1):
                for rest in node_with(k - first, d):
                    yield [sub] + rest

    for k in range(0, n):
        for brs in node_with(k, depth):
            rem = n - 1 - k
            if rem == 0:
                yield [brs]
            else:
                for tail in enum_shapes(rem, depth):
                    yield [brs] + tail


def shape_to_ast(shape, names_iter, syms_iter):
    chain = []
    for i, brs in enumerate(shape):
        nd = Node(next(names_iter))
        for sub in brs:
            o = next(syms_iter)
            nd.branches.append([o, None, None, None])
            nd.branches[-1][1] = shape_to_ast(sub, names_iter, syms_iter)
        if i < len(shape) - 1:
            nd.nxt = next(syms_iter)
        chain.append(nd)
    return chain


def count_slots(shape):
    """(number of nodes, number of bond-symbol slots)"""
    n = 0
    s = 0
    for i, brs in enumerate(shape):
        n += 1
        for sub in brs:
            s += 1
            a, b = count_slots(sub)
            n += a
            s += b
        if i < len(shape) - 1:
            s += 1
    return n, s


def enum_asts(max_nodes, names=('A', 'B'), syms=(None, 2, 0), depth=2, with_ring=True):
    """every AST with <= max_nodes nodes over the given names and bond symbols, at most one ring
    bond (between any two non-adjacent nodes, each ring symbol)"""
    for n in range(1, max_nodes + 1):
        for shape in enum_shapes(n, depth):
            nn, ns = count_slots(shape)
            for nm in itertools.product(names, repeat=nn):
                for sy in itertools.product(syms, repeat=ns):
                    ast = shape_to_ast(shape, iter(nm), iter(sy))
                    yield ast
                    if not with_ring:
                        continue
                    nodes = list(all_nodes(ast))
                    _, edges = interpret(ast)
                    for i in range(len(nodes)):
                        for j in range(i + 1, len(nodes)):
                            if (i, j) in edges:
                                continue
                            for ro in syms:
                                for text in ('1', '%12'):
                                    a2 = copy.deepcopy(ast)
                                    n2 = list(all_nodes(a2))
                                    n2[i].rings.append([ro, int(text.strip('%')), text])
                                    n2[j].rings.append([None, int(text.strip('%')), text])
                                    yield a2


# ----------------------------------------------------------------------------------------
# multipliers (C05)
# ----------------------------------------------------------------------------------------
MULTS = [1, 2, 2, 3, 3, 4, 12]


def rings_closed_within(sub, root):
    """every ring id used inside the chain `sub` is used nowhere else in the string (so the
    ring bonds of the unit are opened and closed inside it)"""
    from collections import Counter
    inside = Counter(r[1] for nd in all_nodes(sub) for r in nd.rings)
    total = Counter(r[1] for nd in all_nodes(root) for r in nd.rings)
    return all(total[rid] == c and c % 2 == 0 for rid, c in inside.items())


def add_multipliers(R, chain, p_node=0.25, p_branch=0.35, root=None):
    """decorate a multiplier-free AST in place with node and unit multipliers"""
    root = chain if root is None else root
    for nd in chain:
        for br in nd.branches:
            add_multipliers(R, br[1], p_node, p_branch, root)
        if nd.rings:
            continue
        if not nd.branches and R.chance(p_node):
            nd.mult = R.choice(MULTS)
        elif len(nd.branches) == 1 and rings_closed_within(nd.branches[0][1], root) and R.chance(p_branch):
            br = nd.branches[0]
            br[2] = R.choice(MULTS[:-1])
            br[3] = R.choice([None, None, 0, 1, 2, 3, 4])
            if R.chance(0.15):
                nd.mult = R.choice([1, 2, 3])      # the last copy of a multiplied node anchors the unit
        elif nd.branches and R.chance(p_node * 0.4):
            nd.mult = R.choice([1, 2, 3])          # the last copy of a multiplied node carries the branches


def mult_features(chain, feats=None, depth=0, top=True, in_unit=False):
    """feature labels of a multiplier-decorated AST (computed from the AST alone)"""
    feats = set() if feats is None else feats
    for pos, nd in enumerate(chain):
        if nd.mult is not None:
            feats.add('node_mult')
            if nd.nxt is not None:
                feats.add('node_mult_then_sym')
            if nd.mult == 1:
                feats.add('node_mult_1')
            if nd.mult >= 2:
                feats.add('n>=2')
            if top and pos == 0:
                feats.add('node_mult_first')
            if depth > 0:
                feats.add('node_mult_in_branch')
            if nd.annot:
                feats.add('node_mult_annot')
            if in_unit:
                feats.add('node_mult_in_unit')
            if nd.branches:
                feats.add('node_mult_with_branch')
            if any(b[2] is not None for b in nd.branches):
                feats.add('multiplied_node_anchors_unit')
        for br in nd.branches:
            unit = br[2] is not None
            if unit:
                n, between = br[2], br[3]
                feats.add('branch_mult')
                if n == 1:
                    feats.add('branch_mult_1')
                if n >= 2:
                    feats.add('n>=2')
                if between is not None:
                    feats.add('between_sym')
                if br[0] is not None:
                    feats.add('unit_anchor_sym')
                if nd.nxt is not None:
                    feats.add('branch_mult_then_sym')
                subn = list(all_nodes(br[1]))
                if any(x.rings for x in subn):
                    feats.add('ring_in_unit')
                if any(x.branches for x in subn):
                    feats.add('nested_branch_in_unit')
                if any(len(x.branches) > 1 for x in subn):
                    feats.add('two_branches_in_unit')
                if br[1][-1].branches:
                    feats.add('unit_ends_close_close')
                if any(x.nxt is not None or any(b[0] is not None for b in x.branches) for x in subn):
                    feats.add('order_in_unit')
                if any(x.annot for x in subn) or nd.annot:
                    feats.add('annot_in_unit')
                if len(nd.branches) > 1:
                    feats.add('plain_branch_after_unit_on_last_anchor_copy')
                if depth > 0:
                    feats.add('branch_mult_in_branch')
                if top and pos == 0:
                    feats.add('branch_mult_first')
                if in_unit:
                    feats.add('branch_mult_in_unit')
                if _branch_depth(br[1]) >= 2:
                    feats.add('nested_depth2_in_unit')
                if sum(len(x.branches) for x in subn) >= 2:
                    feats.add('multiple_nested_branches_in_unit')
                if len(nd.branches) > 1:
                    feats.add('multiplied_anchor_has_two_branches')
                if nd.rings:
                    feats.add('multiplied_anchor_has_ring')
            mult_features(br[1], feats, depth + 1, False, in_unit or unit)
    if top and depth == 0:
        _stale_recipe_units(chain, 0, {'closed': 0}, feats)
    return feats


def _branch_depth(chain):
    """maximal nesting depth of branches inside chain (0 = flat)"""
    return max([1 + _branch_depth(b[1]) for nd in chain for b in nd.branches] or [0])


def _stale_recipe_units(chain, depth, state, feats):
    """label units whose anchor sits inside an enclosing branch in which another branch has
    been closed before (text order)"""
    for nd in chain:
        for br in nd.branches:
            if br[2] is not None and depth >= 1 and state['closed'] > 0:
                feats.add('unit_after_closed_branch')
            _stale_recipe_units(br[1], depth + 1, state, feats)
            if depth == 0:
                state['closed'] = 0
            else:
                state['closed'] += 1


# ----------------------------------------------------------------------------------------
# text -> AST (own recursive-descent parser of the documented grammar; used to build
# regression cases from strings, never as an oracle for generated cases)
# ----------------------------------------------------------------------------------------
_SYMVAL = {v: k for k, v in SYM.items()}


def parse(text, attrs_of=None):
    assert text[0] == '{' and text[-1] == '}', text
    s = text[1:-1]
    pos = [0]

    def peek():
        return s[pos[0]] if pos[0] < len(s) else ''

    def number():
        st = pos[0]
        while peek().isdigit():
            pos[0] += 1
        return s[st:pos[0]]

    def chain():
        out = []
        while peek() == '[':
            end = s.index(']', pos[0])
            body = s[pos[0] + 2:end]
            pos[0] = end + 1
            name, _, ann = body.partition(';')
            nd = Node(name, (';' + ann) if ann else '', dict(attrs_of(ann)) if (attrs_of and ann) else {})
            if peek() == '|':
                pos[0] += 1
                nd.mult = int(number())
            while True:
                c = peek()
                c2 = s[pos[0] + 1] if pos[0] + 1 < len(s) else ''
                o = None
                if c in _SYMVAL and (c2.isdigit() or c2 == '%'):
                    o = _SYMVAL[c]
                    pos[0] += 1
                    c = peek()
                if c.isdigit():
                    pos[0] += 1
                    nd.rings.append([o, int(c), c])
                elif c == '%':
                    pos[0] += 1
                    num = number()
                    nd.rings.append([o, int(num), '%' + num])
                elif (c in _SYMVAL and c2 == '(') or c == '(':
                    bo = None
                    if c != '(':
                        bo = _SYMVAL[c]
                        pos[0] += 1
                    pos[0] += 1
                    sub = chain()
                    assert peek() == ')', (text, pos[0])
                    pos[0] += 1
                    br = [bo, sub, None, None]
                    c = peek()
                    c2 = s[pos[0] + 1] if pos[0] + 1 < len(s) else ''
                    if c == '|' or (c in _SYMVAL and c2 == '|'):
                        if c != '|':
                            br[3] = _SYMVAL[c]
                            pos[0] += 1
                        pos[0] += 1
                        br[2] = int(number())
                    nd.branches.append(br)
                else:
                    break
            if peek() in _SYMVAL and peek() != '':
                nd.nxt = _SYMVAL[peek()]
                pos[0] += 1
            out.append(nd)
        return out

    res = chain()
    assert pos[0] == len(s), (text, pos[0])
    return res


def expand(chain):
    """longhand: an equivalent multiplier-free AST"""
    out = []
    for nd in chain:
        brs = [[o, expand(sub), mult, between] for (o, sub, mult, between) in nd.branches]
        if nd.mult is not None:
            # all but the last copy are plain nodes; the last copy carries rings / branches / the unit
            for k in range(nd.mult - 1):
                out.append(Node(nd.name, nd.annot, nd.attrs))
        if brs and brs[0][2] is not None and all(b[2] is None for b in brs[1:]):
            # anchor + first branch repeated n times; further (plain) branches hang on the last anchor copy
            o, sub, n, between = brs[0]
            for k in range(n):
                c = Node(nd.name, nd.annot, nd.attrs)
                c.rings = [list(r) for r in nd.rings]
                c.branches = [[o, copy.deepcopy(sub), None, None]]
                if k == n - 1:
                    c.branches += [[o2, s2, None, None] for (o2, s2, _, _) in brs[1:]]
                c.nxt = between if k < n - 1 else nd.nxt
                out.append(c)
        else:
            c = Node(nd.name, nd.annot, nd.attrs)
            c.rings = [list(r) for r in nd.rings]
            c.branches = [[o, s, None, None] for (o, s, _, _) in brs]
            c.nxt = nd.nxt
            out.append(c)
    return out


def gen_unit_ast(R, names=('A', 'B', 'C', 'D'), p_annot=0.0):
    """explicit construction of a string around one multiplied unit:
    [prefix] anchor sym ( unit ) between |n after [suffix], optionally inside an enclosing branch"""
    def node():
        annot, attrs = ('', {})
        if p_annot and R.chance(p_annot):
            annot, attrs = gen_annotation(R, BASE_RESERVED)
        return Node(R.choice(names), annot, attrs)

    def osym(p=0.35):
        return R.choice(ORDERS) if R.chance(p) else None

    def flat(n):
        ch = [node() for _ in range(n)]
        for a in ch[:-1]:
            a.nxt = osym()
            if R.chance(0.2):
                a.mult = R.choice(MULTS)
        if R.chance(0.2):
            ch[-1].mult = R.choice(MULTS)
        return ch

    unit = flat(R.randint(1, 4))
    # nested branches on non-last nodes (one level)
    for nd in unit[:-1]:
        if nd.mult is None and R.chance(0.45):
            nd.branches.append([osym(), flat(R.randint(1, 2)), None, None])
    anchor = node()
    anchor.branches.append([osym(), unit, R.choice(MULTS[:-1]), R.choice([None, None, 0, 1, 2, 3, 4])])
    if R.chance(0.15):
        # a further, plain branch written after the multiplied one: it belongs to the last copy of the anchor
        anchor.branches.append([osym(), [node() for _ in range(R.randint(1, 2))], None, None])
    chain = [anchor]
    if R.chance(0.6):
        anchor.nxt = osym()
        chain += flat(R.randint(1, 2))
    if R.chance(0.5):
        pre = flat(R.randint(1, 2))
        pre[-1].mult = None
        pre[-1].nxt = osym()
        if R.chance(0.35):
            # an earlier plain branch (closed, then a bond symbol or the next node) in front of the multiplied unit
            tgt = R.choice(pre)
            if tgt.mult is None:
                tgt.branches.append([osym(), [node() for _ in range(R.randint(1, 2))], None, None])
                if tgt.nxt is None and R.chance(0.5):
                    tgt.nxt = R.choice(ORDERS)
        chain = pre + chain
    if R.chance(0.3):
        outer = node()
        outer.branches.append([osym(), chain, None, None])
        chain = [outer]
        if R.chance(0.5):
            outer.nxt = osym()
            chain.append(node())
    return chain


def gen_big_mult_ast(R, names=('A', 'B', 'C')):
    """one multiplier of three or four digits (polymer-sized repeat counts) on a node or on a small
    anchor+branch unit, nothing else multiplied"""
    n = R.choice([100, 101, 128, 250])

    def node():
        return Node(R.choice(names), '', {})

    def osym(p=0.3):
        return R.choice(ORDERS) if R.chance(p) else None
    anchor = node()
    if R.chance(0.5):
        anchor.mult = n
    else:
        unit = [node() for _ in range(R.randint(1, 2))]
        for a in unit[:-1]:
            a.nxt = osym()
        anchor.branches.append([osym(), unit, min(n, 250), R.choice([None, None, 1, 2])])
    chain = [anchor]
    if R.chance(0.5):
        anchor.nxt = osym()
        chain.append(node())
    if R.chance(0.5):
        pre = node()
        pre.nxt = osym()
        chain = [pre] + chain
    return chain
