"""Output invariants of one resolution step, used by C02 C03 C06 C09 C12 (raise runner.Fail)."""
import json
from collections import Counter, defaultdict

import networkx as nx

from .runner import Fail, expect, note
from . import molgen

INTERNAL = {'fragid', 'fragname', 'bonding', 'hcount', 'atomname', 'mapping', 'ez_isomer_atoms',
            'ez_isomer_class', 'ez_isomer', 'contraction', 'graph', 'aromatic', 'element', 'charge',
            'class', 'isotope', 'stereo', 'single_h_frag', 'w', 'rs_isomer', 'position'}


# ----------------------------------------------------------------------------------------
# canonical dump
# ----------------------------------------------------------------------------------------
def _norm(v):
    if isinstance(v, nx.Graph):
        return dump_obj(v)
    if isinstance(v, dict):
        return {repr(k): _norm(x) for k, x in sorted(v.items(), key=lambda kv: repr(kv[0]))}
    if isinstance(v, (list, tuple)):
        return [_norm(x) for x in v]
    if isinstance(v, (set, frozenset)):
        return sorted((_norm(x) for x in v), key=repr)
    if hasattr(v, 'tolist'):
        return v.tolist()
    if isinstance(v, float) and v == int(v):
        return v
    return v


def dump_obj(g):
    nodes = []
    for n in sorted(g.nodes, key=repr):        # node iteration order is not part of the dump
        d = {k: _norm(v) for k, v in g.nodes[n].items() if not str(k).startswith('_')}
        nodes.append([repr(n), d])
    edges = []
    for a, b, d in g.edges(data=True):
        a2, b2 = sorted((a, b), key=repr)
        edges.append([repr(a2), repr(b2), {k: _norm(v) for k, v in d.items() if not str(k).startswith('_')}])
    edges.sort(key=lambda e: (e[0], e[1]))
    return dict(nodes=nodes, edges=edges)


def dump(g, unordered_bonding=False):
    d = dump_obj(g)
    if unordered_bonding:
        # the pair of descriptors that formed a bond is stored as a tuple on an undirected edge;
        # its orientation follows the direction in which the base edge was visited
        def fix(o):
            for e in o['edges']:
                if isinstance(e[2].get('bonding'), list):
                    e[2]['bonding'] = sorted(e[2]['bonding'])
            for n in o['nodes']:
                for v in n[1].values():
                    if isinstance(v, dict) and 'nodes' in v and 'edges' in v:
                        fix(v)
        fix(d)
    return json.dumps(d, sort_keys=True, default=repr)


# ----------------------------------------------------------------------------------------
# C02: mapping is a faithful partition into fragment copies
# ----------------------------------------------------------------------------------------
def members_of(cg, fine):
    keys = set(cg.nodes)
    members = defaultdict(set)
    for n, d in fine.nodes(data=True):
        fid = d.get('fragid')
        expect(isinstance(fid, list) and len(fid) > 0, 'mapping:no-fragid', lambda: 'fine node %r has fragid %r' % (n, fid))
        expect(set(fid) <= keys, 'mapping:fragid-not-a-coarse-node',
               lambda: 'fine node %r has fragid %r, coarse nodes are %r' % (n, fid, sorted(keys)))
        for k in fid:
            members[k].add(n)
    return members


def check_mapping(cg, fine, templates, all_atom, what=''):
    members = members_of(cg, fine)
    # two atoms paired by shared-atom descriptors are ONE atom of both coarse nodes, never two bonded atoms
    for a, b, d in fine.edges(data=True):
        bd = d.get('bonding')
        expect(not (bd and str(bd[0]).startswith('!')), 'mapping:shared-atom-pair-left-as-bond',
               lambda: '%satoms %r and %r were paired by %r but are two bonded atoms (fragid %r / %r)' % (
                   what, a, b, bd, fine.nodes[a].get('fragid'), fine.nodes[b].get('fragid')))
    for k in cg.nodes:
        fragname = cg.nodes[k].get('fragname')
        g = cg.nodes[k].get('graph')
        if fragname not in templates:
            expect(not members[k] and (g is None or len(g) == 0), 'mapping:virtual-node-has-members',
                   lambda: '%scoarse node %r (%s) has no fragment but members %r' % (what, k, fragname, sorted(members[k])))
            continue
        expect(g is not None and set(g.nodes) == members[k], 'mapping:graph-attr-differs-from-fragid',
               lambda: "%scoarse node %r: 'graph' holds %r but fragid says %r" % (
                   what, k, sorted(g.nodes) if g is not None else None, sorted(members[k])))
        tmpl = templates[fragname]
        image = {}
        for n in sorted(members[k]):
            d = fine.nodes[n]
            shared = len(d['fragid']) > 1
            if not shared:
                expect(d.get('fragname') == fragname, 'mapping:fragname',
                       lambda: '%sfine node %r of coarse node %r (%s) reports fragname %r' % (what, n, k, fragname, d.get('fragname')))
            mp = d.get('mapping')
            if mp is None:
                # completed hydrogen
                expect(all_atom and d.get('element') == 'H', 'mapping:unmapped-node',
                       lambda: '%sfine node %r has no mapping' % (what, n))
                continue
            expect(len(mp) == len(d['fragid']), 'mapping:mapping-fragid-length',
                   lambda: '%sfine node %r: mapping %r vs fragid %r' % (what, n, mp, d['fragid']))
            for j, fid in enumerate(d['fragid']):
                if fid != k:
                    continue
                fn, idx = mp[j]
                expect(fn == fragname, 'mapping:wrong-template-name',
                       lambda: '%sfine node %r maps to (%r, %r) but coarse node %r is %s' % (what, n, fn, idx, k, fragname))
                expect(idx not in image, 'mapping:template-atom-twice',
                       lambda: '%stemplate atom %r of %s appears twice in coarse node %r' % (what, idx, fragname, k))
                image[idx] = n
        expect(set(image) == set(tmpl.nodes), 'mapping:not-a-copy',
               lambda: '%scoarse node %r (%s): template atoms %r, mapped %r' % (what, k, fragname, sorted(tmpl.nodes), sorted(image)))
        for idx, n in image.items():
            td, fd = tmpl.nodes[idx], fine.nodes[n]
            shared = len(fd['fragid']) > 1
            if all_atom:
                expect(td.get('element') == fd.get('element'), 'mapping:element',
                       lambda: '%snode %r is %r, template %s[%r] is %r' % (what, n, fd.get('element'), fragname, idx, td.get('element')))
                if not shared:
                    expect(td.get('charge', 0) == fd.get('charge', 0), 'mapping:charge',
                           lambda: '%snode %r charge %r, template %r' % (what, n, fd.get('charge'), td.get('charge')))
            elif not shared:
                expect(td.get('atomname') == fd.get('atomname'), 'mapping:node-name',
                       lambda: '%snode %r is named %r, template %s[%r] is %r' % (what, n, fd.get('atomname'), fragname, idx, td.get('atomname')))
            if not shared:
                for key in td:
                    if key in INTERNAL or str(key).startswith('_'):
                        continue
                    expect(key in fd and fd[key] == td[key], 'mapping:annotation',
                           lambda: '%snode %r: annotation %r is %r, template has %r' % (what, n, key, fd.get(key), td[key]))
        for a, b, o in tmpl.edges(data='order'):
            expect(fine.has_edge(image[a], image[b]), 'mapping:template-bond-missing',
                   lambda: '%sbond %r-%r of template %s missing between %r-%r' % (what, a, b, fragname, image[a], image[b]))
            fo = fine.edges[image[a], image[b]].get('order')
            if o != 1.5 and fo != 1.5:
                expect(fo == o, 'mapping:template-bond-order',
                       lambda: '%sbond %r-%r of template %s has order %r, copy has %r' % (what, a, b, fragname, o, fo))
        inv = {n: i for i, n in image.items()}
        for a in image.values():
            for b in fine[a]:
                if b in inv and not tmpl.has_edge(inv[a], inv[b]):
                    # two atoms shared with one other coarse node may be bonded through that node's template
                    common = (set(fine.nodes[a]['fragid']) & set(fine.nodes[b]['fragid'])) - {k}
                    if common:
                        continue
                    expect('bonding' in fine.edges[a, b], 'mapping:extra-internal-bond',
                           lambda: '%sbond %r-%r inside the copy of %s is not in the template' % (what, a, b, fragname))
    covered = set()
    for v in members.values():
        covered |= v
    expect(covered == set(fine.nodes), 'mapping:not-covering', lambda: '%suncovered nodes %r' % (what, sorted(set(fine.nodes) - covered)))


# ----------------------------------------------------------------------------------------
# C03: inter-fragment bonds
# ----------------------------------------------------------------------------------------
def compatible_ref(l, r, legacy):
    """independent re-statement of the matching rule; descriptors are kind+label+orderdigit"""
    kl, kr = l[0], r[0]
    ll, lr = l[1:-1], r[1:-1]
    ol, or_ = l[-1], r[-1]
    if kl in '$!':
        ok = (kl == kr)
    else:
        ok = {kl, kr} == {'<', '>'}
    if not ok:
        return False
    if legacy:
        return ll == lr and ol == or_
    return True


def template_descriptors(fine, n, templates):
    """pooled list of descriptors written on the template atom(s) of fine node n"""
    out = []
    for fn, idx in fine.nodes[n].get('mapping', []) or []:
        out += list(templates[fn].nodes[idx].get('bonding', []) or [])
    return out


def check_bonds(cg, fine, templates, legacy, all_atom, dedicated, what=''):
    units = []      # every unit of base-edge order consumed: (description, candidate base edges)
    inter = []
    for a, b, d in fine.edges(data=True):
        fa, fb = set(fine.nodes[a]['fragid']), set(fine.nodes[b]['fragid'])
        if fa & fb and 'bonding' not in d:
            continue            # bond inside one fragment copy
        if all_atom:
            # (an explicitly written hydrogen - it maps to a template atom - may carry a descriptor of its own)
            expect(all(fine.nodes[x].get('element') != 'H' or fine.nodes[x].get('mapping') for x in (a, b)),
                   'bonds:hydrogen-across-fragments', lambda: '%sbond %r-%r joins a hydrogen to another fragment' % (what, a, b))
        expect('bonding' in d, 'bonds:no-descriptor-pair',
               lambda: '%sbond %r-%r between coarse nodes %r and %r carries no bonding pair' % (what, a, b, sorted(fa), sorted(fb)))
        l, r = d['bonding']
        pairs = [(x, y) for x in sorted(fa) for y in sorted(fb) if x != y and cg.has_edge(x, y)]
        expect(pairs, 'bonds:not-across-a-base-edge',
               lambda: '%sbond %r-%r joins coarse nodes %r/%r which are not adjacent' % (what, a, b, sorted(fa), sorted(fb)))
        expect(compatible_ref(l, r, legacy), 'bonds:incompatible-pair',
               lambda: '%sbond %r-%r formed by %r and %r (legacy=%r)' % (what, a, b, l, r, legacy))
        order = d.get('order')
        digit = int(l[-1])
        arom = fine.nodes[a].get('aromatic', False) and fine.nodes[b].get('aromatic', False)
        if order == 1.5:
            in_ring = False
            if arom:
                h = fine.copy()
                h.remove_edge(a, b)
                in_ring = nx.has_path(h, a, b)
            expect(arom and in_ring, 'bonds:order', lambda: '%sbond %r-%r has order 1.5 outside an aromatic ring' % (what, a, b))
        elif (order == 2 and digit == 1 and all_atom and
              all(any(templates[fn].nodes[idx].get('aromatic') for fn, idx in fine.nodes[x].get('mapping', []) or [])
                  for x in (a, b))):
            # both atoms were WRITTEN lower-case: the cut bond is a SMILES aromatic bond, whose order is
            # fixed by the Kekule structure of the conjugated system (a quinoid ring is not aromatic and
            # its ring C=C bond comes back as 2); C01 compares these orders with the model molecule
            note('lowercase_bond_localised_to_double')
        else:
            expect(order == digit, 'bonds:order',
                   lambda: '%sbond %r-%r has order %r, descriptors %r/%r annotate %d' % (what, a, b, order, l, r, digit))
        units.append((('bond', a, b), [frozenset(p) for p in pairs]))
        inter.append((a, b, l, r))
    # atoms merged by the shared-atom operator consume one unit per additional membership
    for n, d in fine.nodes(data=True):
        if len(d['fragid']) > 1 and 'mapping' in d:
            fid = d['fragid']
            cands = [frozenset((x, y)) for i, x in enumerate(fid) for y in fid[i + 1:] if cg.has_edge(x, y)]
            for _ in range(len(fid) - 1):
                units.append((('merge', n), cands))
    # feasibility: every unit is attributed to one of its candidate base edges without exceeding
    # any edge order (maximum flow); attribution is ambiguous for atoms with several memberships
    flow = nx.DiGraph()
    total_order = 0
    for x, y, o in cg.edges(data='order'):
        flow.add_edge(('e', frozenset((x, y))), 'T', capacity=int(o))
        total_order += int(o)
    for i, (what_, cands) in enumerate(units):
        flow.add_edge('S', ('u', i), capacity=1)
        for c in cands:
            flow.add_edge(('u', i), ('e', c), capacity=1)
    value = nx.maximum_flow_value(flow, 'S', 'T') if units and 'T' in flow else 0
    expect(value == len(units), 'bonds:more-than-edge-order',
           lambda: '%s%d bonds/shared atoms between coarse nodes cannot be attributed to the base edges %r without exceeding an edge order (%d attributable)' % (
               what, len(units), sorted((tuple(sorted(e)), o) for e, o in ((frozenset((x, y)), o) for x, y, o in cg.edges(data='order'))), value))
    if dedicated:
        expect(len(units) == total_order, 'bonds:fewer-than-edge-order',
               lambda: '%s%d bonds/shared atoms for a total base-edge order of %d although a dedicated pair exists per unit' % (what, len(units), total_order))
    # descriptor usage: every bond uses one written descriptor on each side, none twice
    avail = {}
    for a, b, l, r in inter:
        for n in (a, b):
            if n not in avail:
                avail[n] = Counter(template_descriptors(fine, n, templates))

    def assign(i, left):
        if i == len(inter):
            return True
        a, b, l, r = inter[i]
        for (da, db) in ((l, r), (r, l)) if l != r else ((l, r),):
            if left[a][da] > 0 and left[b][db] > 0:
                left[a][da] -= 1
                left[b][db] -= 1
                if assign(i + 1, left):
                    return True
                left[a][da] += 1
                left[b][db] += 1
        return False
    if len(inter) <= 40:
        left = {n: Counter(c) for n, c in avail.items()}
        expect(assign(0, left), 'bonds:descriptor-not-written-or-used-twice',
               lambda: '%sbonds %r cannot be explained by the descriptors written on the templates %r' % (
                   what, [(a, b, l, r) for a, b, l, r in inter], {n: dict(c) for n, c in avail.items()}))
    return len(inter)


# ----------------------------------------------------------------------------------------
# C09: valence completeness
# ----------------------------------------------------------------------------------------
def usual_valences(element, charge):
    if charge:
        return molgen.CHARGED.get((element, charge))
    return molgen.USUAL_VALENCES.get(element)


def check_valence(fine, what=''):
    """every heavy atom whose heavy-atom bonds fit a usual valence carries exactly the missing
    hydrogens; every H has one neighbour and copies its fragid / fragname / weight"""
    for n, d in fine.nodes(data=True):
        if d.get('element') == 'H':
            if d.get('single_h_frag'):
                continue
            expect(fine.degree(n) == 1, 'valence:hydrogen-degree', lambda: '%shydrogen %r has %d neighbours' % (what, n, fine.degree(n)))
            (nb,) = list(fine[n])
            expect(fine.edges[n, nb].get('order') == 1, 'valence:hydrogen-bond-order',
                   lambda: '%shydrogen %r bonded with order %r' % (what, n, fine.edges[n, nb].get('order')))
            if 'mapping' in d:
                continue    # explicitly written hydrogen: keeps its own attributes
            pd = fine.nodes[nb]
            for key in ('fragid', 'fragname', 'weight'):
                expect(d.get(key) == pd.get(key), 'valence:hydrogen-attribute',
                       lambda: '%shydrogen %r has %s=%r, its atom %r has %r' % (what, n, key, d.get(key), nb, pd.get(key)))
            continue
        vals = usual_valences(d.get('element'), d.get('charge', 0))
        if not vals:
            continue
        heavy = 0
        nh = 0
        arom = 0
        for nb in fine[n]:
            o = fine.edges[n, nb].get('order', 1)
            if fine.nodes[nb].get('element') == 'H':
                nh += 1
            else:
                heavy += o
                if o == 1.5:
                    arom += 1
        if arom:
            # aromatic atom: sigma bonds + one pi electron
            nsig = sum(1 for nb in fine[n] if fine.nodes[nb].get('element') != 'H')
            s = nsig + 1
            if arom == 3:
                s = nsig + 1
        else:
            s = heavy
        fit = [v for v in vals if v >= s]
        if not fit:
            continue
        want = int(min(fit) - s)
        expect(nh == want, 'valence:hydrogen-count',
               lambda: '%satom %r (%s%+d) has heavy bond sum %s and %d hydrogens, expected %d' % (
                   what, n, d.get('element'), d.get('charge', 0), s, nh, want))


def check_aromatic_bonds_in_rings(fine, what=''):
    """an order-1.5 bond is a standard valence only as part of a ring"""
    arom = [(a, b) for a, b, d in fine.edges(data=True) if d.get('order') == 1.5]
    if arom:
        bridges = {frozenset(e) for e in nx.bridges(fine)}
        for a, b in arom:
            expect(frozenset((a, b)) not in bridges, 'valence:aromatic-bond-outside-ring',
                   lambda: '%sbond %r-%r has order 1.5 but lies on no ring' % (what, a, b))


# ----------------------------------------------------------------------------------------
# C12: canonical numbering
# ----------------------------------------------------------------------------------------
def check_numbering(cg, fine, all_atom, what=''):
    n = len(fine)
    expect(sorted(fine.nodes, key=repr) == sorted(range(n), key=repr), 'numbering:keys',
           lambda: '%snode keys %r, expected 0..%d' % (what, sorted(fine.nodes, key=repr)[:30], n - 1))
    fids = [fine.nodes[i]['fragid'] for i in range(n)]
    expect(all(fids[i] <= fids[i + 1] for i in range(n - 1)), 'numbering:not-sorted-by-fragid',
           lambda: '%sfragid sequence %r' % (what, fids[:40]))
    shared = any(len(f) > 1 for f in fids)
    if not shared:
        order = [k for k in cg.nodes if cg.nodes[k].get('graph') is not None and len(cg.nodes[k]['graph']) > 0]
        seq = []
        for f in fids:
            if not seq or seq[-1] != f[0]:
                seq.append(f[0])
        expect(len(seq) == len(set(seq)), 'numbering:block-not-contiguous', lambda: '%sblocks %r' % (what, seq))
        expect(seq == sorted(order), 'numbering:block-order',
               lambda: '%sblocks in order %r, coarse nodes with atoms %r' % (what, seq, sorted(order)))
    if all_atom:
        for k in cg.nodes:
            g = cg.nodes[k].get('graph')
            if g is None:
                continue
            names = [fine.nodes[x].get('atomname') for x in g.nodes]
            for x in g.nodes:
                nm = fine.nodes[x].get('atomname')
                el = fine.nodes[x].get('element')
                expect(isinstance(nm, str) and nm.startswith(el) and nm[len(el):].isdigit(), 'numbering:atomname',
                       lambda: '%satom %r (%s) is named %r' % (what, x, el, nm))
                expect(g.nodes[x].get('atomname') == nm or len(fine.nodes[x]['fragid']) > 1, 'numbering:atomname-in-fragment-graph',
                       lambda: '%satom %r named %r in the molecule and %r in the fragment graph' % (what, x, nm, g.nodes[x].get('atomname')))
            if not shared and len(g):
                # 'element plus a running index': the counter follows the atoms of the coarse node in key order
                idx = [int(fine.nodes[x]['atomname'][len(fine.nodes[x]['element']):]) for x in sorted(g.nodes)]
                expect(idx == list(range(len(idx))), 'numbering:atomname-counter',
                       lambda: '%satoms %r of coarse node %r are named %r' % (what, sorted(g.nodes), k, [fine.nodes[x]['atomname'] for x in sorted(g.nodes)]))
            gnames = [g.nodes[x].get('atomname') for x in g.nodes]
            expect(len(set(gnames)) == len(gnames), 'numbering:atomname-not-unique',
                   lambda: '%satom names of coarse node %r: %r' % (what, k, gnames))


# ----------------------------------------------------------------------------------------
# isomorphism that also works for very long chains (VF2 in networkx recurses once per node)
# ----------------------------------------------------------------------------------------
def _walk(g, start):
    seq, prev, cur = [], None, start
    while True:
        nxt = [x for x in g[cur] if x != prev]
        seq.append((cur, nxt[0] if nxt else None))
        if not nxt:
            return seq
        prev, cur = cur, nxt[0]


def iso(g, h, node_match, edge_match):
    if len(g) != len(h) or g.number_of_edges() != h.number_of_edges():
        return False
    if len(g) <= 300:
        return nx.is_isomorphic(g, h, node_match=node_match, edge_match=edge_match)
    dg, dh = sorted(d for _, d in g.degree), sorted(d for _, d in h.degree)
    if dg != dh:
        return False
    if dg[-1] > 2 or dg[0] != 1 or not nx.is_connected(g) or not nx.is_connected(h):
        raise RuntimeError('iso(): large graphs are only supported when they are simple chains')
    sg = _walk(g, [n for n, d in g.degree if d == 1][0])
    for end in [n for n, d in h.degree if d == 1]:
        sh = _walk(h, end)
        if all(node_match(g.nodes[a], h.nodes[b]) and (a2 is None) == (b2 is None) and
               (a2 is None or edge_match(g.edges[a, a2], h.edges[b, b2])) for (a, a2), (b, b2) in zip(sg, sh)):
            return True
    return False
