"""Common driver: generate -> exclude known -> oracle -> collect -> bucket -> minimise -> replay
file -> evidence.  One instance of this flow per property module (vlib/props/cXX.py).

Property module interface
-------------------------
ID, RULE (str), ASSUMPTIONS (list[str], optional)
budget(tier)            -> dict(examples=int per shard, shards=int)
gen(R, tier)            -> case (JSON-able dict, must contain 'input') or None (rejected)
oracle(case)            -> None | raises Fail / SutError
classes(case)           -> iterable[str]   (class histogram; optional)
nontrivial(case)        -> bool
key(case)               -> hashable string identifying the distinct case (default: input)
enumerate_cases(tier)   -> iterator of cases (optional, exhaustive sub-run)
extra(tier, seed, col)  -> optional additional sub-runs (sub-processes, stateful machines)
"""
import contextlib
import hashlib
import importlib
import io
import json
import multiprocessing
import os
import sys
import time
import traceback
from collections import Counter

from . import env

LEVEL = 'exploration'
MAX_BUCKET_KEEP = 6


class Fail(Exception):
    """the oracle found the property violated on this case"""

    def __init__(self, kind, detail=''):
        super().__init__(kind, detail)
        self.kind = kind
        self.detail = str(detail)[:2000]



class user_recursion_limit:
    """Hypothesis raises the interpreter's recursion limit while a test runs; inside this block the code under
    test has the head-room a user has at Python's default limit (1000 frames, ~950 of them free)"""

    def __enter__(self):
        import sys
        depth, f = 0, sys._getframe()
        while f is not None:
            depth, f = depth + 1, f.f_back
        self.old = sys.getrecursionlimit()
        sys.setrecursionlimit(depth + 950)

    def __exit__(self, *a):
        import sys
        sys.setrecursionlimit(self.old)


def is_flaky(e):
    """Hypothesis reports 'flaky' when a replayed history behaves differently from its first run - which is what
    happens when the code under test keeps state between histories (itself a violation that was recorded)"""
    import hypothesis.errors as he
    if isinstance(e, he.Flaky):
        return True
    return isinstance(e, BaseExceptionGroup) and any(is_flaky(x) for x in e.exceptions)


class SutError(Exception):
    """the code under test raised"""

    def __init__(self, exc):
        self.exc = exc
        self.type = type(exc).__name__
        frames = traceback.extract_tb(exc.__traceback__)
        where = None
        marker = os.sep + 'cgsmiles' + os.sep
        for fr in frames:
            if marker in fr.filename and os.sep + 'vlib' + os.sep not in fr.filename:
                where = '%s:%s' % (os.path.basename(fr.filename), fr.name)
        if where is None and frames:
            where = '%s:%s' % (os.path.basename(frames[-1].filename), frames[-1].name)
        self.sig = '%s@%s' % (self.type, where)
        self.msg = str(exc)[:500]
        super().__init__(self.sig, self.msg)


def sut(fn, *args, **kwargs):
    """call code under test; stdout noise swallowed; any exception becomes SutError"""
    buf = io.StringIO()
    try:
        with contextlib.redirect_stdout(buf):
            return fn(*args, **kwargs)
    except (Fail, SutError):
        raise
    except RecursionError as exc:
        raise SutError(exc) from None
    except Exception as exc:  # noqa
        raise SutError(exc) from None


_NOTES = Counter()


def note(key, n=1):
    """oracles report measured facts about a case (e.g. growth steps) into the evidence"""
    _NOTES[key] += n


def expect(cond, kind, detail=''):
    if not cond:
        raise Fail(kind, detail() if callable(detail) else detail)


def load_prop(pid):
    return importlib.import_module('vlib.props.' + pid.lower())


def _h(text):
    return hashlib.sha1(text.encode('utf8', 'replace')).hexdigest()[:16]


def evaluate(prop, case):
    """run the oracle on one case -> None | (kind, detail)"""
    try:
        prop.oracle(case)
    except Fail as f:
        return (f.kind, f.detail)
    except SutError as e:
        return ('EXC:' + e.sig, e.msg)
    except Exception as e:  # oracle could not digest the output of the code under test
        tb = traceback.format_exc().strip().splitlines()
        return ('ORACLE-EXC:' + type(e).__name__, ' | '.join(tb[-4:]))
    return None


class Collector:
    def __init__(self, prop, known_features=()):
        self.prop = prop
        self.known_features = set(known_features)
        self.evaluations = 0
        self.rejected = 0
        self.excluded = Counter()
        self.classes = Counter()
        self.nontrivial = set()
        self.samples = {}
        self.failures = {}     # kind -> list of dict(case, detail) (smallest kept)
        self.fail_count = Counter()
        self.notes = Counter()
        self.seed = None       # shard seed (set by the shard driver) so that a failure can be shrunk from its own shard

    # -- evaluation ----------------------------------------------------------------------
    def eval_case(self, case, source='generated'):
        prop = self.prop
        if case is None:
            self.rejected += 1
            return
        feats = set(case.get('features', ()))
        hit = feats & self.known_features
        if hit:
            for f in hit:
                self.excluded[f] += 1
            return
        self.evaluations += 1
        cls = list(prop.classes(case)) if hasattr(prop, 'classes') else sorted(feats)
        for c in cls:
            self.classes[c] += 1
        key = prop.key(case) if hasattr(prop, 'key') else case['input']
        if not isinstance(key, str):
            key = json.dumps(key, sort_keys=True, default=str)
        hk = _h(key)
        if hasattr(prop, 'measure'):
            self.notes.update(prop.measure(case))
        _NOTES.clear()
        res = evaluate(prop, case)
        self.notes.update(_NOTES)
        _NOTES.clear()
        if prop.nontrivial(case):
            self.nontrivial.add(hk)
            if len(self.samples) < 400:
                self.samples[hk] = prop.sample_repr(case) if hasattr(prop, 'sample_repr') else case['input']
        if res is not None:
            self.record_failure(res[0], res[1], case, source)

    def record_failure(self, kind, detail, case, source='generated'):
        self.fail_count[kind] += 1
        lst = self.failures.setdefault(kind, [])
        lst.append(dict(case=case, detail=detail, source=source, seed=self.seed,
                        size=len(json.dumps(case, default=str))))
        lst.sort(key=lambda d: d['size'])
        del lst[MAX_BUCKET_KEEP:]

    # -- merge / serialise ---------------------------------------------------------------
    def to_dict(self):
        return dict(evaluations=self.evaluations, rejected=self.rejected,
                    excluded=dict(self.excluded), classes=dict(self.classes),
                    nontrivial=sorted(self.nontrivial), samples=self.samples,
                    failures=self.failures, fail_count=dict(self.fail_count),
                    notes=dict(self.notes))

    def merge(self, d):
        self.evaluations += d['evaluations']
        self.rejected += d['rejected']
        self.excluded.update(d['excluded'])
        self.classes.update(d['classes'])
        self.nontrivial.update(d['nontrivial'])
        for k, v in d['samples'].items():
            if len(self.samples) < 400:
                self.samples[k] = v
        for kind, lst in d['failures'].items():
            cur = self.failures.setdefault(kind, [])
            cur.extend(lst)
            cur.sort(key=lambda x: x['size'])
            del cur[MAX_BUCKET_KEEP:]
        self.fail_count.update(d['fail_count'])
        self.notes.update(d.get('notes', {}))


# ----------------------------------------------------------------------------------------
# hypothesis shards
# ----------------------------------------------------------------------------------------
def hypothesis_run(prop, tier, seed, examples, collector, raise_kind=None, shrink=False, sink=None):
    """Drive prop.gen with Hypothesis.  Normal mode: failures are collected, the test never
    fails (so the search continues behind a failure).  raise_kind mode: the test fails on a
    failure of that kind so Hypothesis shrinks it; the last failing case is left in sink."""
    import hypothesis
    from hypothesis import given, settings, strategies as st, HealthCheck, Phase, Verbosity
    from .draw import Draw

    phases = [Phase.generate] + ([Phase.shrink] if shrink else [])

    @hypothesis.seed(seed)
    @settings(max_examples=examples, database=None, deadline=None,
              suppress_health_check=list(HealthCheck), phases=phases,
              report_multiple_bugs=False, derandomize=False, print_blob=False, verbosity=Verbosity.quiet)
    @given(st.data())
    def test(data):
        case = prop.gen(Draw(data), tier)
        if raise_kind is None:
            collector.eval_case(case)
            return
        if case is None:
            return
        if set(case.get('features', ())) & collector.known_features:
            return
        res = evaluate(prop, case)
        if res is not None and res[0] == raise_kind:
            sink['case'] = case
            sink['detail'] = res[1]
            raise AssertionError(res[0])

    test.hypothesis.inner_test  # noqa  (attribute exists; keeps linters quiet)
    if raise_kind is None:
        test()
    else:
        try:
            with contextlib.redirect_stdout(io.StringIO()), contextlib.redirect_stderr(io.StringIO()):
                test()
        except AssertionError:
            pass
        except Exception:   # flaky/other hypothesis complaints: keep what we have
            pass
    return test


def _shard(args):
    pid, tier, seed, examples, known = args
    try:
        prop = load_prop(pid)
        col = Collector(prop, known)
        col.seed = seed
        hypothesis_run(prop, tier, seed, examples, col)
        return ('ok', seed, col.to_dict())
    except Exception:
        return ('error', seed, traceback.format_exc())


def _enum_chunk(args):
    pid, tier, known, chunk_idx, nchunks = args
    try:
        prop = load_prop(pid)
        col = Collector(prop, known)
        for i, case in enumerate(prop.enumerate_cases(tier)):
            if i % nchunks == chunk_idx:
                col.eval_case(case, source='enumerated')
        return ('ok', chunk_idx, col.to_dict())
    except Exception:
        return ('error', chunk_idx, traceback.format_exc())


# ----------------------------------------------------------------------------------------
# known findings
# ----------------------------------------------------------------------------------------
def _kinds(f):
    k = f.get('failure_kind', '')
    return tuple(k) if isinstance(k, (list, tuple)) else (k,)


def load_findings(pid):
    path = os.path.join(env.VERIF, 'known_findings.json')
    if not os.path.exists(path):
        return []
    with open(path) as fh:
        data = json.load(fh)
    return [f for f in data.get('findings', []) if f['property'] == pid]


# ----------------------------------------------------------------------------------------
# coverage-guided campaigns (atheris / libFuzzer on the Hypothesis choice sequence)
# ----------------------------------------------------------------------------------------
def fuzz_campaigns(pid, cfg, seed, known_features, col):
    import subprocess
    import shutil
    try:
        import atheris  # noqa
    except Exception as e:
        return dict(skipped='atheris not importable (%s); thorough tier ran Hypothesis shards only' % type(e).__name__)
    work = os.path.join(env.VERIF, '.work', 'fuzz-%s-%d' % (pid, os.getpid()))
    os.makedirs(work, exist_ok=True)
    procs = []
    n = cfg.get('campaigns', 8)
    for i in range(n):
        out = os.path.join(work, 'c%d.json' % i)
        e = dict(os.environ)
        e['PYTHONHASHSEED'] = '0'
        # campaign 0 starts from an empty corpus, the others from the seeded byte strings
        e['VERIF_FUZZ_SEED_CORPUS'] = '0' if i == 0 else '1'
        cmd = [sys.executable, '-m', 'vlib.fuzz', pid, str(cfg.get('runs', 3000)), str(seed * 100 + i + 1), out] + list(known_features)
        procs.append((out, subprocess.Popen(cmd, cwd=env.VERIF, env=e, stdout=subprocess.DEVNULL, stderr=subprocess.DEVNULL)))
    execs = evals = 0
    done = 0
    for out, p in procs:
        try:
            p.wait(timeout=cfg.get('timeout', 3600))
        except subprocess.TimeoutExpired:
            p.kill()
        if os.path.exists(out):
            with open(out) as fh:
                d = json.load(fh)
            execs += d.get('execs', 0)
            evals += d['evaluations']
            col.merge(d)
            done += 1
    shutil.rmtree(work, ignore_errors=True)
    return dict(engine='atheris/libFuzzer over Hypothesis fuzz_one_input', campaigns=n, campaigns_reporting=done,
                executions=execs, oracle_evaluations=evals, runs_per_campaign=cfg.get('runs', 3000),
                corpus='campaign 0 empty corpus, others 48 pinned random byte strings')


# ----------------------------------------------------------------------------------------
# main flow
# ----------------------------------------------------------------------------------------
def write_replay(pid, kind, detail, case):
    os.makedirs(os.path.join(env.OUT, 'replays'), exist_ok=True)
    blob = json.dumps(dict(property=pid, kind=kind, detail=detail, case=case), indent=1,
                      sort_keys=True, default=str)
    name = '%s-%s.json' % (pid, _h(kind + json.dumps(case, sort_keys=True, default=str)))
    path = os.path.join(env.OUT, 'replays', name)
    with open(path, 'w') as fh:
        fh.write(blob + '\n')
    return os.path.relpath(path, env.VERIF) if env.OUT == env.VERIF else path


def replay(pid, path):
    prop = load_prop(pid)
    with open(path) as fh:
        blob = json.load(fh)
    case = blob.get('case', blob)
    res = evaluate(prop, case)
    if res is None:
        print('replay %s: property holds on this input' % path)
        return 0
    print('replay %s: %s :: %s' % (path, res[0], res[1]))
    print('VIOLATION property=%s replay=%s' % (pid, path))
    return 1


def run(pid, tier):
    t0 = time.time()
    seed = env.seed()
    env.check_tree()
    prop = load_prop(pid)
    findings = load_findings(pid)
    open_f = [f for f in findings if f['status'] == 'open']
    fixed_f = [f for f in findings if f['status'] == 'fixed']
    known_features = sorted({f['feature'] for f in open_f if f.get('feature')})
    col = Collector(prop, known_features)
    violations = []       # (kind, detail, case)
    known_lines = []
    stale = []

    # 1. replay tier: known findings and regression inputs -------------------------------
    for f in open_f:
        for case in f.get('replays', []):
            res = evaluate(prop, case)
            if res is None:
                stale.append(f['key'])
            elif res[0].startswith(_kinds(f)):
                line = 'KNOWN-FINDING: property=%s %s [%s] input=%s' % (pid, f['what'], f['key'], case['input'])
                if line not in known_lines:
                    known_lines.append(line)
            else:
                violations.append((res[0], 'known input fails differently: ' + res[1], case))
    regress = 0
    for f in fixed_f:
        for case in f.get('replays', []):
            regress += 1
            res = evaluate(prop, case)
            if res is not None:
                violations.append((res[0], 'regression of fixed finding %s: %s' % (f['key'], res[1]), case))
    if hasattr(prop, 'regression_cases'):
        for case in prop.regression_cases():
            regress += 1
            col.eval_case(case, source='regression')

    # 2. exhaustive enumerations ----------------------------------------------------------
    bud = prop.budget(tier)
    nproc = bud.get('procs', 16 if tier == 'thorough' else 4)
    exhaustive = False
    ctx = multiprocessing.get_context('fork')
    errors = []
    if hasattr(prop, 'enumerate_cases'):
        with ctx.Pool(nproc) as pool:
            jobs = [(pid, tier, known_features, i, nproc) for i in range(nproc)]
            for status, idx, payload in pool.imap_unordered(_enum_chunk, jobs):
                if status == 'ok':
                    col.merge(payload)
                else:
                    errors.append(payload)
        exhaustive = True
    enum_evals = col.evaluations

    # 3. generated shards ------------------------------------------------------------------
    shards = bud.get('shards', 1)
    examples = bud.get('examples', 0)
    seeds = [seed * 1000 + i for i in range(shards)]
    if examples:
        with ctx.Pool(min(nproc, shards)) as pool:
            jobs = [(pid, tier, s, examples, known_features) for s in seeds]
            for status, s, payload in pool.imap_unordered(_shard, jobs):
                if status == 'ok':
                    col.merge(payload)
                else:
                    errors.append(payload)

    # 3b. coverage-guided campaigns (thorough tier of the scanner properties) ----------------
    fuzz_info = {}
    if tier == 'thorough' and getattr(prop, 'FUZZ', None) and not errors:
        fuzz_info = fuzz_campaigns(pid, prop.FUZZ, seed, known_features, col)

    # 4. property specific extra sub-runs ---------------------------------------------------
    extra_info = {}
    if hasattr(prop, 'extra') and not errors:
        try:
            extra_info = prop.extra(tier, seed, col) or {}
        except Exception:
            errors.append(traceback.format_exc())

    if errors:
        sys.stderr.write('HARNESS ERROR in %s\n%s\n' % (pid, errors[0]))
        return 2

    # 5. buckets -> minimise -> replay files -------------------------------------------------
    for kind, lst in sorted(col.failures.items()):
        best = lst[0]
        case, detail = best['case'], best['detail']
        if tier == 'thorough' and best.get('source') == 'generated' and examples:
            sink = {}
            for s in ([best['seed']] if best.get('seed') is not None else seeds):
                hypothesis_run(prop, tier, s, examples, Collector(prop, known_features),
                               raise_kind=kind, shrink=True, sink=sink)
                if sink:
                    break
            if sink and len(json.dumps(sink['case'], default=str)) <= best['size']:
                case, detail = sink['case'], sink['detail']
        violations.append((kind, detail, case))

    # 6. evidence ------------------------------------------------------------------------------
    samples = [col.samples[k] for k in sorted(col.samples)[:8]]
    if not samples:
        samples = ['(no non-trivial case generated)']
    coverage = dict(
        evaluations=col.evaluations,
        distinct_nontrivial=len(col.nontrivial),
        rule=prop.RULE,
        samples=samples,
        exhaustive=bool(exhaustive and not examples),
        exhaustive_subrun_evaluations=enum_evals if exhaustive else 0,
        classes=dict(sorted(col.classes.items())),
        excluded_known=dict(col.excluded),
        rejected_by_generator=col.rejected,
        regression_inputs_replayed=regress,
        shards=shards, examples_per_shard=examples, shard_seeds=seeds,
        failure_buckets={k: v for k, v in col.fail_count.items()},
        known_findings_reported=known_lines,
        stale_known_findings=stale,
        notes=dict(col.notes),
    )
    coverage.update(extra_info)
    if fuzz_info:
        coverage['coverage_guided'] = fuzz_info
    evidence = dict(property_id=pid, tier=tier, seed=seed, level=LEVEL, coverage=coverage,
                    assumptions=list(getattr(prop, 'ASSUMPTIONS', [])),
                    wall_s=round(time.time() - t0, 2), violations=len(violations))
    os.makedirs(os.path.join(env.OUT, 'evidence'), exist_ok=True)
    with open(os.path.join(env.OUT, 'evidence', pid + '.json'), 'w') as fh:
        json.dump(evidence, fh, indent=1, sort_keys=True, default=str)
        fh.write('\n')

    for line in known_lines:
        print(line)
    print('%s tier=%s seed=%d evaluations=%d distinct_nontrivial=%d excluded_known=%d rejected=%d wall=%.1fs'
          % (pid, tier, seed, col.evaluations, len(col.nontrivial), sum(col.excluded.values()),
             col.rejected, time.time() - t0))
    if violations:
        for kind, detail, case in violations:
            path = write_replay(pid, kind, detail, case)
            print('  failure kind=%s count=%d input=%s :: %s' % (kind, col.fail_count.get(kind, 1),
                                                              str(case.get('input'))[:300], detail[:300]))
            print('VIOLATION property=%s replay=%s' % (pid, path))
        return 1
    return 0


def main(argv=None):
    argv = list(sys.argv[1:] if argv is None else argv)
    if not argv:
        print('usage: check <ID> [--tier quick|thorough] [--replay file]')
        return 2
    pid = argv[0].upper()
    tier = os.environ.get('VERIF_TIER', 'quick')
    rp = None
    i = 1
    while i < len(argv):
        if argv[i] == '--tier':
            tier = argv[i + 1]
            i += 2
        elif argv[i] == '--replay':
            rp = argv[i + 1]
            i += 2
        elif argv[i] in ('quick', 'thorough'):
            tier = argv[i]
            i += 1
        else:
            i += 1
    if tier not in ('quick', 'thorough'):
        tier = 'quick'
    try:
        if rp:
            env.check_tree()
            return replay(pid, rp)
        return run(pid, tier)
    except SystemExit:
        raise
    except Exception:
        sys.stderr.write('HARNESS ERROR\n' + traceback.format_exc())
        return 2


if __name__ == '__main__':
    sys.exit(main())
