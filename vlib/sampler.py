"""Sampler configurations (generator), execution and history reconstruction shared by C16 / C17."""
import warnings
from collections import Counter, defaultdict

import networkx as nx

from . import molgen, invariants
from .runner import sut, expect, Fail, SutError

warnings.filterwarnings('ignore')
DEAD_END = ('IndexError', 'ValueError', 'OSError', 'IOError', 'ZeroDivisionError')
SYM = {1: '', 2: '=', 0: '.'}


def norm(k):
    return k if k[-1].isdigit() else k + '1'


# ----------------------------------------------------------------------------------------
# generator
# ----------------------------------------------------------------------------------------
def gen_cfg(R, tier, all_atom=None):
    if all_atom is None:
        all_atom = R.chance(0.3)
    nfr = R.choice([1, 2, 2, 3, 4])
    labs = ['', '', 'A', 'B', 'x2', 'c1']
    frags = {}
    texts = {}
    descs_all = []
    expected_mass = {}
    prev_mol = None
    twin_feat = False
    render_seed = 0
    for f in range(nfr):
        is_twin = False
        name = 'F%d' % f
        d = defaultdict(list)
        nd = R.choice([1, 2, 2, 3, 4])
        if all_atom and f == 1 and prev_mol is not None and R.chance(0.25):
            # the same skeleton as the first fragment, differing only in one formal charge (acid / carboxylate ...)
            import copy as _copy
            m = _copy.deepcopy(prev_mol)
            cand = [i for i, a in enumerate(m.atoms) if a['element'] == 'O' and not a['charge'] and len(m.nbrs(i)) == 1
                    and m.order(i, m.nbrs(i)[0]) == 1 and not m.atoms[m.nbrs(i)[0]]['aromatic']]
            cand2 = [i for i, a in enumerate(m.atoms) if a['element'] == 'N' and not a['charge'] and not a['aromatic']
                     and all(m.order(i, j) == 1 for j in m.nbrs(i)) and m.bondsum(i) <= 3]
            if cand:
                m.atoms[R.choice(cand)]['charge'] = -1
                twin_feat = is_twin = True
            elif cand2:
                m.atoms[R.choice(cand2)]['charge'] = 1
                twin_feat = is_twin = True
        elif all_atom:
            m = molgen.gen_mol(R, max_heavy=R.choice([1, 3, 6]), p_arom=0.25, p_charge=0.1, p_multi=0.3, p_ring=0.3, hyper=False)
        if all_atom:
            # descriptors only on non-aromatic atoms: the all-atom sampler does not update the hydrogen
            # count of a bonded aromatic atom and then rejects the molecule as not kekulisable
            cands = [i for i in range(len(m.atoms)) if m.free(i) >= 1 and not m.atoms[i]['aromatic']]
            if not cands:
                return None
            free = {i: m.free(i) for i in cands}
            for _ in range(nd):
                a = R.choice(cands)
                o = 2 if (free.get(a, 0) >= 2 and not m.atoms[a]['aromatic'] and R.chance(0.2)) else 1
                if R.chance(0.07):
                    o = 0       # a zero-order descriptor (association without a bond, e.g. counter ions)
                if free.get(a, 0) < o:
                    continue
                free[a] -= o
                k, lab = R.choice(['$', '$', '>', '<']), R.choice(labs)
                d[a].append((k, lab, o))
            expected_mass[name] = m.mass()
            if f == 0:
                prev_mol = m
        else:
            n = R.randint(1, 3)
            m = None
            for _ in range(nd):
                k, lab, o = R.choice(['$', '$', '>', '<']), R.choice(labs), R.choice([1, 1, 1, 1, 1, 2, 2, 0])
                d[R.randrange(n)].append((k, lab, o))
        if f == 0:
            # one guaranteed propagation pair
            a0 = min(d) if d else 0
            if all_atom:
                last = [i for i in range(len(m.atoms)) if not m.atoms[i]['aromatic'] and m.free(i) - sum(o for (_, _, o) in d.get(i, [])) >= 1]
                if len(last) >= 1:
                    x = last[0]
                    y = last[-1]
                    if x != y or m.free(x) - sum(o for (_, _, o) in d.get(x, [])) >= 2:
                        d[x].append(('>', '', 1))
                        d[y].append(('<', '', 1))
            else:
                d[0].append(('>', '', 1))
                d[n - 1].append(('<', '', 1))
        for a, lst in d.items():
            for (k, lab, o) in lst:
                descs_all.append('%s%s%d' % (k, lab, o))
        if all_atom:
            dtext = {a: [SYM[o] + '[%s%s]' % (k, lab) for (k, lab, o) in lst] for a, lst in d.items()}
            RR = R
            if f == 0 or is_twin:
                # the first fragment and its charge twin are written with the same atom order (rendering choices
                # from one drawn seed), so that only the charge distinguishes the two definitions
                import random as _random
                from .draw import PyRandom
                if f == 0:
                    render_seed = R.randint(0, 10 ** 6)
                RR = PyRandom(_random.Random(render_seed))
            text, _pos = molgen.render_fragment(RR, m, list(range(len(m.atoms))), dtext,
                                               dict(bracket=0.25, omit_h=0.5, explicit_single=0.0))    # bracket atoms often without their H count: valence is refilled
        else:
            text = ''.join('[#X%d]' % a + ''.join(SYM[o] + '[%s%s]' % (k, lab) for (k, lab, o) in d.get(a, []))
                           for a in range(n))
        texts[name] = text
    if not descs_all:
        return None
    s = '{' + ','.join('#%s=%s' % (nm, t) for nm, t in texts.items()) + '}'
    kinds = sorted(set(descs_all))

    def key(dsc):
        # the order suffix may be omitted in table keys, except after a label that ends in a digit
        # (the API would read that digit as the order)
        return dsc[:-1] if (dsc[-1] == '1' and not dsc[-2].isdigit() and R.chance(0.5)) else dsc
    pr = {}
    style = R.choice(['uniform', 'zeros', 'zeros', 'missing', 'empty'])
    if style != 'empty':
        for dsc in kinds:
            if style == 'uniform':
                pr[key(dsc)] = 1.0
            elif style == 'zeros':
                pr[key(dsc)] = 0.0 if R.chance(0.35) else round(R.uniform(0.05, 1.0), 2)
            else:
                if R.chance(0.25):
                    continue
                pr[key(dsc)] = 0.0 if R.chance(0.2) else round(R.uniform(0.05, 1.0), 2)
        if not any(v > 0 for v in pr.values()):
            pr[key(kinds[0])] = 0.5
    fragr = {}
    if R.chance(0.5):
        for dsc in kinds:
            if R.chance(0.5):
                row = {}
                for d2 in kinds:
                    if R.chance(0.85):
                        row[key(d2)] = 0.0 if R.chance(0.4) else round(R.uniform(0.05, 1.0), 2)
                if row:
                    fragr[key(dsc)] = row
    term = [key(d_) for d_ in kinds if R.chance(0.2)]
    masses = {nm: R.choice([1, 5, 10.5, 42]) for nm in texts}
    explicit_aa_masses = all_atom and R.chance(0.25)
    cfg = dict(input=s, pr=pr, fragr=fragr, term=term, masses=masses if (not all_atom or explicit_aa_masses) else None, all_atom=all_atom,
               seed=R.randint(0, 10 ** 6), target=R.choice([0, 1, 10, 50, 120, -5]) if not all_atom else R.choice([0, 30, 150, 400]),
               start=R.choice([None, None, 'F0']), expected_mass=expected_mass)
    feats = {'all_atom' if all_atom else 'coarse', 'pr:' + style, 'nfrag:%d' % nfr}
    if not all_atom and R.chance(0.12):
        # a target a hair above a mass sum that growth can reach exactly: one more fragment is required
        cfg['target'] = R.choice(sorted(masses.values())) * R.randint(2, 40) + R.choice([1e-4, 1e-6, 3e-3])
        feats.add('target_just_above_a_reachable_sum')
    if twin_feat:
        feats.add('two_fragments_differing_only_in_charge')
    if explicit_aa_masses:
        feats.add('all_atom_with_given_masses')
        cfg['expected_mass'] = {}
    if fragr:
        feats.add('conditional_table')
    if term:
        feats.add('terminal_set')
    if any(v == 0 for v in pr.values()):
        feats.add('zero_reactivity')
    if any(v == 0 for row in fragr.values() for v in row.values()):
        feats.add('zero_conditional')
    cfg['features'] = sorted(feats)
    return cfg


# ----------------------------------------------------------------------------------------
# execution
# ----------------------------------------------------------------------------------------
def make_sampler(cfg):
    from cgsmiles.sample import MoleculeSampler
    kw = dict(polymer_reactivities=cfg['pr'], fragment_reactivities=cfg['fragr'], terminal_bonds=cfg['term'],
              all_atom=cfg['all_atom'], seed=cfg['seed'])
    if cfg['masses'] is not None:
        kw['fragment_masses'] = cfg['masses']
    return MoleculeSampler.from_fragment_string(cfg['input'], **kw)


def run_cfg(cfg):
    """-> (sampler, graph, None) or (sampler|None, None, state at the failing growth step)"""
    smp = sut(make_sampler, cfg)
    state = {}
    orig = smp.add_fragment

    def spy(molecule, open_bonds, *a, **k):
        state['open'] = {d: list(nodes) for d, nodes in open_bonds.items()}
        return orig(molecule, open_bonds, *a, **k)
    smp.add_fragment = spy
    try:
        if cfg.get('start'):
            g = sut(smp.sample, cfg['target'], start_fragment=cfg['start'])
        else:
            g = sut(smp.sample, cfg['target'])
    except SutError as e:
        return smp, None, (e, state.get('open'))
    return smp, g, None


def dead_end_possible(cfg, smp, open_bonds):
    """could the growth step legitimately fail in this state?"""
    pr = {norm(k): v for k, v in cfg['pr'].items()}
    fragr = {norm(k): {norm(k2): v for k2, v in d.items()} for k, d in cfg['fragr'].items()}
    if open_bonds is None:
        return False
    if not open_bonds:
        return True
    avail = sorted(smp.fragments_by_bonding.keys())
    sites = [d for d in open_bonds if (not pr) or pr.get(d, 0) > 0]
    if not sites:
        return True
    for s in sites:
        if s[0] == '$':
            compl = [d for d in avail if d[0] == '$' and d[-1] == s[-1]]
        else:
            c = ('>' if s[0] == '<' else '<') + s[1:]
            if c not in avail:
                return True
            compl = [c]
        if not compl:
            return True
        if fragr.get(s):
            if not any(fragr[s].get(c, 0) > 0 for c in compl):
                return True
    return False


# ----------------------------------------------------------------------------------------
# analysis of one sample
# ----------------------------------------------------------------------------------------
def template_map(g, members, tmpl, all_atom):
    """fine nodes of one fragment copy -> template node; rank mapping, else any isomorphism"""
    heavy = sorted(members)
    tn = list(tmpl.nodes)
    if len(heavy) == len(tn):
        mp = dict(zip(heavy, tn))
        if _is_iso(g, mp, tmpl, all_atom):
            return mp
    sub = g.subgraph(heavy)
    key = 'element' if all_atom else 'atomname'
    gm = nx.isomorphism.GraphMatcher(sub, tmpl, node_match=lambda a, b: a.get(key) == b.get(key))
    for mp in gm.isomorphisms_iter():
        if _is_iso(g, mp, tmpl, all_atom):
            return mp
    return None


def _is_iso(g, mp, tmpl, all_atom):
    key = 'element' if all_atom else 'atomname'
    for n, t in mp.items():
        if g.nodes[n].get(key) != tmpl.nodes[t].get(key):
            return False
        if all_atom and g.nodes[n].get('charge', 0) != tmpl.nodes[t].get('charge', 0):
            return False
    inv = {t: n for n, t in mp.items()}
    for a, b, o in tmpl.edges(data='order'):
        if not g.has_edge(inv[a], inv[b]):
            return False
        go = g.edges[inv[a], inv[b]].get('order')
        if go != o and 1.5 not in (go, o):
            return False
    for n in mp:
        for nb in g[n]:
            if nb in mp and not tmpl.has_edge(mp[n], mp[nb]) and 'bonding' not in g.edges[n, nb]:
                return False
    return True


def analyse(cfg, smp, g, want):
    """want: set of clause groups {'structure', 'weights'}"""
    all_atom = cfg['all_atom']
    pr = {norm(k): v for k, v in cfg['pr'].items()}
    fragr = {norm(k): {norm(k2): v for k2, v in d.items()} for k, d in cfg['fragr'].items()}
    term = {norm(k) for k in cfg['term']}
    n = len(g)
    frag_of = {}
    for x, d in g.nodes(data=True):
        fid = d.get('fragid')
        expect(isinstance(fid, list) and len(fid) == 1, 'sampler:fragid', lambda: 'node %r has fragid %r' % (x, fid))
        frag_of[x] = fid[0]
    fids = sorted(set(frag_of.values()))
    members = defaultdict(list)
    for x in g.nodes:
        members[frag_of[x]].append(x)
    names = {}
    for f in fids:
        nm = {g.nodes[x].get('fragname') for x in members[f]}
        if 'structure' in want:
            expect(len(nm) == 1, 'sampler:fragname', lambda: 'fragment %r has fragnames %r' % (f, nm))
        names[f] = sorted(nm, key=repr)[0]
    inter = [(a, b, d) for a, b, d in g.edges(data=True) if frag_of[a] != frag_of[b]]
    if 'structure' in want:
        expect(nx.is_connected(g), 'sampler:disconnected', 'sampled molecule is not connected')
        expect(sorted(g.nodes, key=repr) == sorted(range(n), key=repr), 'sampler:numbering', lambda: 'node keys %r' % sorted(g.nodes, key=repr)[:20])
        expect(fids == list(range(len(fids))), 'sampler:fragids-not-contiguous', lambda: 'fragids %r' % fids)
        seq = [frag_of[i] for i in range(n)]
        expect(all(seq[i] <= seq[i + 1] for i in range(n - 1)), 'sampler:numbering-not-by-fragment', lambda: 'fragid sequence %r' % seq[:40])
        expect(len(inter) == len(fids) - 1, 'sampler:not-a-tree-of-fragments',
               lambda: '%d inter-fragment bonds for %d fragments' % (len(inter), len(fids)))
        q = nx.Graph()
        q.add_nodes_from(fids)
        q.add_edges_from((frag_of[a], frag_of[b]) for a, b, d in inter)
        expect(len(fids) == 1 or nx.is_tree(q), 'sampler:not-a-tree-of-fragments', 'fragment quotient graph is not a tree')
    # templates
    tmap = {}
    for f in fids:
        tmpl = smp.fragment_dict.get(names[f])
        expect(tmpl is not None, 'sampler:unknown-fragment', lambda: 'fragment %r named %r' % (f, names[f]))
        heavy = members[f]
        if all_atom:
            # completed hydrogens come after the template atoms of the copy
            heavy = sorted(members[f])[:len(tmpl)]
            rest = sorted(members[f])[len(tmpl):]
            if 'structure' in want:
                expect(all(g.nodes[x].get('element') == 'H' for x in rest), 'sampler:copy-not-isomorphic',
                       lambda: 'fragment %r (%s): atoms beyond the template are not hydrogens' % (f, names[f]))
        mp = template_map(g, heavy, tmpl, all_atom) if len(heavy) == len(tmpl) else None
        if 'structure' in want:
            expect(mp is not None, 'sampler:copy-not-isomorphic',
                   lambda: 'fragment %r is not a copy of template %s' % (f, names[f]))
        tmap[f] = mp
    # history
    hist = sorted(inter, key=lambda e: max(frag_of[e[0]], frag_of[e[1]]))
    open_ = {}
    for f in fids:
        if tmap[f] is None:
            continue
        for x, t in tmap[f].items():
            open_[x] = list(smp.fragment_dict[names[f]].nodes[t].get('bonding', []) or [])
    masses = smp.fragment_masses
    tot = 0.0
    tot_before = 0.0
    full = all(tmap[f] is not None for f in fids)
    active = set(members[0]) if fids else set()
    for k, (a, b, d) in enumerate(hist):
        new = max(frag_of[a], frag_of[b])
        if 'structure' in want:
            expect(new == k + 1 and min(frag_of[a], frag_of[b]) <= k, 'sampler:history-order',
                   lambda: 'growth step %d joins fragments %r and %r' % (k, frag_of[a], frag_of[b]))
            expect('bonding' in d, 'sampler:bond-without-descriptors', lambda: 'bond %r-%r has no bonding pair' % (a, b))
        site_atom, partner_atom = (a, b) if frag_of[a] < frag_of[b] else (b, a)
        site, partner = d['bonding']
        if 'structure' in want:
            ok = site[-1] == partner[-1]
            if site[0] == '$':
                ok = ok and partner[0] == '$'
            else:
                ok = ok and {site[0], partner[0]} == {'<', '>'} and site[1:] == partner[1:]
            expect(ok, 'sampler:not-complementary', lambda: 'growth step %d joins %r with %r' % (k, site, partner))
            expect(d.get('order') == int(site[-1]), 'sampler:bond-order', lambda: 'bond of %r/%r has order %r' % (site, partner, d.get('order')))
        if full:
            open_now = Counter(dd for x in active for dd in open_.get(x, []))
            if 'structure' in want:
                expect(site in open_.get(site_atom, []), 'sampler:descriptor-not-open',
                       lambda: 'growth step %d uses %r on atom %r whose open descriptors are %r' % (k, site, site_atom, open_.get(site_atom)))
                expect(partner in open_.get(partner_atom, []), 'sampler:descriptor-not-open',
                       lambda: 'growth step %d uses %r on new atom %r which carries %r' % (k, partner, partner_atom, open_.get(partner_atom)))
            if 'weights' in want:
                # (where every candidate has reactivity 0 the sampler raises - a dead end - it never picks one)
                if pr:
                    expect(cfg_explicit_zero(pr, site) is False, 'sampler:zero-reactivity-site',
                           lambda: 'growth step %d chose site %r whose reactivity is 0' % (k, site))
                if fragr.get(site):
                    row = fragr[site]
                    expect(not (partner in row and row[partner] == 0), 'sampler:zero-conditional-partner',
                           lambda: 'growth step %d chose partner %r with conditional reactivity 0 given %r' % (k, partner, site))
            if site in open_.get(site_atom, []):
                open_[site_atom].remove(site)
            if partner in open_.get(partner_atom, []):
                open_[partner_atom].remove(partner)
            if partner in term:
                open_[site_atom] = []
            else:
                open_[site_atom] = [x for x in open_[site_atom] if x not in term]
            active |= set(members[new])
        tot_before = tot
        tot += masses[names[new]]
    if 'weights' in want:
        if hist:
            expect(tot >= cfg['target'] and tot_before < cfg['target'], 'sampler:stopping-rule',
                   lambda: 'added mass %s (without the last fragment %s), target %s' % (tot, tot_before, cfg['target']))
        else:
            expect(cfg['target'] <= 0, 'sampler:stopping-rule', lambda: 'no growth although target is %s' % cfg['target'])
        if full:
            # final descriptor lists = what the history leaves open (terminal rules included)
            for x, lst in open_.items():
                got = list(g.nodes[x].get('bonding', []) or [])
                expect(Counter(got) == Counter(lst), 'sampler:open-descriptors',
                       lambda: 'atom %r ends with descriptors %r, the growth history leaves %r (terminal set %r)' % (x, got, lst, sorted(term)))
    if 'structure' in want and full:
        for x, lst in open_.items():
            got = Counter(g.nodes[x].get('bonding', []) or [])
            expect(not (got - Counter(lst)), 'sampler:descriptor-used-twice',
                   lambda: 'atom %r still lists %r although only %r can be open' % (x, dict(got), lst))
    if 'structure' in want and all_atom:
        invariants.check_valence(g, 'sample: ')
        for f in fids:
            nm = [g.nodes[x].get('atomname') for x in members[f]]
            expect(len(set(nm)) == len(nm), 'sampler:atomname-not-unique', lambda: 'fragment %r atom names %r' % (f, nm))
            for x in members[f]:
                el = g.nodes[x].get('element')
                an = g.nodes[x].get('atomname')
                expect(isinstance(an, str) and an.startswith(el) and an[len(el):].isdigit(), 'sampler:atomname',
                       lambda: 'atom %r (%s) named %r' % (x, el, an))
    return dict(steps=len(hist))


def cfg_explicit_zero(pr, site):
    return site in pr and pr[site] == 0
