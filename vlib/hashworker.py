"""sub-process worker: resolves / samples a batch of inputs under the PYTHONHASHSEED it was started
with and prints one sha1 of the canonical dump per input (JSON list on the last line)."""
import hashlib
import json
import sys

from . import env  # noqa
from . import invariants
from .runner import sut, SutError


def main():
    mode, path = sys.argv[1], sys.argv[2]
    with open(path) as fh:
        batch = json.load(fh)
    out = []
    if mode == 'resolve':
        from cgsmiles import MoleculeResolver
        for c in batch:
            try:
                cg, fine = sut(lambda: MoleculeResolver.from_string(c['input'], last_all_atom=c['aa'], legacy=c['legacy']).resolve_all())
                d = invariants.dump(cg) + '\n' + invariants.dump(fine)
                out.append(hashlib.sha1(d.encode()).hexdigest())
            except SutError as e:
                out.append('EXC:' + e.sig)
    elif mode == 'sample':
        from .props import c16
        for c in batch:
            out.append(c16.sample_digest(c))
    print(json.dumps(out))


if __name__ == '__main__':
    main()
