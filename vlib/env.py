"""Tree under test, seeds, tiers.  Importing this module makes `import cgsmiles` resolve to the
working tree given by CGSMILES_TREE (default /repo)."""
import os
import sys
import logging

VERIF = os.path.dirname(os.path.dirname(os.path.abspath(__file__)))
TREE = os.environ.get('CGSMILES_TREE', '/repo')
os.environ.setdefault('PBR_VERSION', '0.0.0')
# hooks guard (no hooks are needed; declared for the interface)
os.environ.setdefault('CGSMILES_VERIF', '1')
# where evidence/ and replays/ are written (scratch runs against mutated trees redirect it)
OUT = os.environ.get('VERIF_OUT', VERIF)
DEPS = os.path.join(VERIF, '.deps')
if not os.path.isdir(DEPS) and os.path.isdir('/verif/.deps'):
    DEPS = '/verif/.deps'       # background snapshots of /verif do not contain untracked files
if os.path.isdir(DEPS) and DEPS not in sys.path:
    sys.path.append(DEPS)
if TREE not in sys.path:
    sys.path.insert(0, TREE)
logging.disable(logging.CRITICAL)


def seed():
    try:
        return int(os.environ.get('VERIF_SEED', '1'))
    except ValueError:
        return 1


def check_tree():
    """import cgsmiles and verify it comes from TREE; returns the module."""
    import cgsmiles
    path = os.path.realpath(os.path.dirname(cgsmiles.__file__))
    want = os.path.realpath(os.path.join(TREE, 'cgsmiles'))
    if path != want:
        raise RuntimeError('cgsmiles imported from %s, expected %s' % (path, want))
    return cgsmiles
