import sys
from vlib.runner import main
sys.exit(main())
