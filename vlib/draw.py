"""`Draw`: a random.Random-like facade whose every decision is a Hypothesis draw, so that the
whole generated case is a function of Hypothesis' choice sequence (seedable, shrinkable,
replayable, and mutable by libFuzzer through `fuzz_one_input`)."""
from hypothesis import strategies as st


# Hypothesis' bounded integer draws are strongly skewed towards small values (measured: 50 % of
# st.integers(0, 999) draws fall below 300).  Generators that take probabilities literally would
# starve their rarer classes, so small-range decisions go through a monotone correction with the
# measured cumulative distribution: shrinking still moves every decision towards its first option.
_CDF = [0.0, 0.188, 0.343, 0.500, 0.620, 0.708, 0.782, 0.842, 0.896, 0.938, 1.0]


def _correct(k, n=1000):
    x = k / n * 10.0
    i = min(int(x), 9)
    return _CDF[i] + (_CDF[i + 1] - _CDF[i]) * (x - i)


class Draw:
    def __init__(self, data):
        self.d = data

    def _u(self):
        """approximately uniform in [0, 1), monotone in the underlying draw"""
        return min(_correct(self.d.draw(st.integers(0, 999))), 0.999999)

    def randint(self, a, b):
        if a >= b:
            return a
        if b - a >= 400:
            return self.d.draw(st.integers(a, b))
        return a + int(self._u() * (b - a + 1))

    def randrange(self, n):
        return self.randint(0, n - 1)

    def choice(self, seq):
        seq = list(seq)
        return seq[self.randint(0, len(seq) - 1)]

    def random(self):
        return self._u()

    def chance(self, p):
        """True with probability ~p (shrinks towards False)."""
        return self._u() >= 1.0 - p

    def shuffle(self, lst):
        for i in range(len(lst) - 1, 0, -1):
            j = self.randint(0, i)
            lst[i], lst[j] = lst[j], lst[i]

    def sample(self, pop, k):
        pop = list(pop)
        out = []
        for _ in range(k):
            out.append(pop.pop(self.randint(0, len(pop) - 1)))
        return out

    def uniform(self, a, b, steps=1000):
        return a + (b - a) * self.randint(0, steps) / steps


class PyRandom:
    """same interface backed by random.Random (used only by enumerations' fixed renderings and
    by replay tools, never inside a generated check)."""

    def __init__(self, rnd):
        self.r = rnd

    def randint(self, a, b):
        return a if a >= b else self.r.randint(a, b)

    def randrange(self, n):
        return self.randint(0, n - 1)

    def choice(self, seq):
        seq = list(seq)
        return seq[self.randint(0, len(seq) - 1)]

    def random(self):
        return self.r.randint(0, 999) / 1000.0

    def chance(self, p):
        return self.random() < p

    def shuffle(self, lst):
        self.r.shuffle(lst)

    def sample(self, pop, k):
        return self.r.sample(list(pop), k)

    def uniform(self, a, b, steps=1000):
        return a + (b - a) * self.randint(0, steps) / steps
