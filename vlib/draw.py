"""`Draw`: a random.Random-like facade whose every decision is a Hypothesis draw, so that the
whole generated case is a function of Hypothesis' choice sequence (seedable, shrinkable,
replayable, and mutable by libFuzzer through `fuzz_one_input`)."""
from hypothesis import strategies as st


class Draw:
    def __init__(self, data):
        self.d = data

    def randint(self, a, b):
        if a >= b:
            return a
        return self.d.draw(st.integers(a, b))

    def randrange(self, n):
        return self.randint(0, n - 1)

    def choice(self, seq):
        seq = list(seq)
        return seq[self.randint(0, len(seq) - 1)]

    def random(self):
        return self.randint(0, 999) / 1000.0

    def chance(self, p):
        """True with probability ~p (shrinks towards False)."""
        return self.randint(0, 999) >= 1000 - int(round(p * 1000))

    def shuffle(self, lst):
        for i in range(len(lst) - 1, 0, -1):
            j = self.randint(0, i)
            lst[i], lst[j] = lst[j], lst[i]

    def sample(self, pop, k):
        pop = list(pop)
        out = []
        for _ in range(k):
            out.append(pop.pop(self.randint(0, len(pop) - 1)))
        return out

    def uniform(self, a, b, steps=1000):
        return a + (b - a) * self.randint(0, steps) / steps


class PyRandom:
    """same interface backed by random.Random (used only by enumerations' fixed renderings and
    by replay tools, never inside a generated check)."""

    def __init__(self, rnd):
        self.r = rnd

    def randint(self, a, b):
        return a if a >= b else self.r.randint(a, b)

    def randrange(self, n):
        return self.randint(0, n - 1)

    def choice(self, seq):
        seq = list(seq)
        return seq[self.randint(0, len(seq) - 1)]

    def random(self):
        return self.r.randint(0, 999) / 1000.0

    def chance(self, p):
        return self.random() < p

    def shuffle(self, lst):
        self.r.shuffle(lst)

    def sample(self, pop, k):
        return self.r.sample(list(pop), k)

    def uniform(self, a, b, steps=1000):
        return a + (b - a) * self.randint(0, steps) / steps
